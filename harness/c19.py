"""C19 - tuning changes only parameters, stays in range and never returns a worse graph.
Implementation: golem.core.tuning (BaseTuner.tune and the four tuners) driven for real.
Model: coq/theories/Tuning/Tuner.v (tune / agree / holds_b).

Observation goes through objects WE supply: the ObjectiveEvaluate logs every evaluation (the
parameter assignment, whether the evaluated object is the working graph, the fitness), the
SearchSpace logs the per-node queries of the sequential tuner.  That log is the proposer fed to
the model (hyperopt / optuna / iOpt are arbitrary proposers to the model)."""
import contextlib
import io
import logging
import math
import os
import time
import warnings
from copy import deepcopy
from datetime import timedelta
from fractions import Fraction

from common import c_Q, c_Z, c_bool, c_list, c_nat, c_opt, c_str

warnings.filterwarnings('ignore')

import numpy as np  # noqa: E402
import optuna  # noqa: E402
from hyperopt import hp  # noqa: E402

from golem.core.optimisers.fitness import MultiObjFitness, SingleObjFitness  # noqa: E402
from golem.core.optimisers.graph import OptGraph, OptNode  # noqa: E402
from golem.core.optimisers.objective import Objective, ObjectiveEvaluate  # noqa: E402
from golem.core.tuning.iopt_tuner import IOptTuner  # noqa: E402
from golem.core.tuning.optuna_tuner import OptunaTuner  # noqa: E402
from golem.core.tuning.search_space import SearchSpace  # noqa: E402
from golem.core.tuning.sequential import SequentialTuner  # noqa: E402
from golem.core.tuning.simultaneous import SimultaneousTuner  # noqa: E402

REQ = ['Tuning.Tuner']
FN = ('fun c => match c with (en, cfg, sp, tbl, pr, g, o) => '
      '[agree_e en cfg sp tbl pr g o; holds_e en sp g o; entry_ok_b sp (pb_space sp) en (c_kind cfg) g pr; '
      'entry_ok_b sp (pb_range sp) en (c_kind cfg) g pr] end')
PREAMBLE = ''
NB = 4

KINDS = ['simultaneous', 'sequential', 'optuna', 'iopt']
CLS = {'simultaneous': SimultaneousTuner, 'sequential': SequentialTuner, 'optuna': OptunaTuner, 'iopt': IOptTuner}
HP = {'uniformint': hp.uniformint, 'randint': hp.randint, 'uniform': hp.uniform, 'loguniform': hp.loguniform,
      'choice': hp.choice}
TYPE = {'uniformint': 'discrete', 'randint': 'discrete', 'uniform': 'continuous', 'loguniform': 'continuous',
        'choice': 'categorical'}


def _silence():
    logging.disable(logging.CRITICAL)
    try:
        optuna.logging.disable_default_handler()
        optuna.logging.set_verbosity(optuna.logging.CRITICAL)
    except Exception:
        pass


# ----------------------------------------------------------------------------------------
# building the real objects from JSON-serialisable specs
# ----------------------------------------------------------------------------------------
def build_space(spec):
    d = {}
    for op, params in spec.items():
        d[op] = {}
        for p, (dist, *scope) in params.items():
            d[op][p] = {'hyperopt-dist': HP[dist], 'sampling-scope': [list(scope[0])] if dist == 'choice' else list(scope),
                        'type': TYPE[dist]}
    return d


def build_graph(spec):
    """spec: list of {'name', 'params' (dict or None), 'parents': [indices > own index]}"""
    nodes = [None] * len(spec)
    for i in reversed(range(len(spec))):
        s = spec[i]
        content = {'name': s['name']}
        if s.get('params') is not None:
            content['params'] = dict(s['params'])
        nodes[i] = OptNode(content, nodes_from=[nodes[j] for j in s['parents']])
    children = {j for s in spec for j in s['parents']}
    roots = [nodes[i] for i in range(len(spec)) if i not in children]
    return OptGraph(roots) if roots else OptGraph()


def num(v):
    if v is None:
        return 0.0
    if isinstance(v, str):
        return float(ord(v[0]) - 64) if v else 0.0
    return float(v)


def q64(x):
    return math.floor(x * 64 + 0.5) / 64


def rescale(scale, v):
    """objective values of extreme magnitude, still exact in binary64: offset 2^30 (about 1e9, differences of a
    few units) or factor 2^-40 (about 1e-12)"""
    if scale == 'huge':
        return v + 2.0 ** 30
    if scale == 'tiny':
        return v * 2.0 ** -40
    return v


def canon_val(v):
    if isinstance(v, (bool, np.bool_)):
        return int(v)
    if isinstance(v, (int, np.integer)):
        return int(v)
    if isinstance(v, (float, np.floating)):
        return float(v)
    if v is None or isinstance(v, str):
        return v
    raise TypeError('unexpected parameter value %r' % (v,))


def snapshot(graph):
    return [{str(k): canon_val(v) for k, v in n.parameters.items()} for n in graph.nodes]


def snap_key(snap):
    return tuple(tuple(sorted(((k, type(v).__name__, v) for k, v in d.items()), key=repr)) for d in snap)


class Evaluator(ObjectiveEvaluate):
    """the objective the USER configures: a subclass of ObjectiveEvaluate whose evaluate() hands reference data kept
    by the evaluator to the metrics (ospec['reference']: None, 'input' or a number: the metric becomes the distance
    of its plain value to the reference); a deterministic function of the parameter assignment; every call is logged.
    The driver judges with THIS object (evaluate / __call__), never with the bare Objective inside it."""

    def __init__(self, ospec, input_snap, events, working, expected):
        self.ospec, self.input_snap, self.events, self.working = ospec, input_snap, events, working
        self.expected = expected        # per node: names of the search-space parameters of its operation
        self.silent = False
        self.objects = []
        objective = Objective({'m%d' % i: (lambda g, k=k, reference=None: self._metric(k, g, reference))
                               for i, k in enumerate(ospec['metrics'])},
                              is_multi_objective=ospec['multi'])
        super().__init__(objective)

    def _value(self, kind, snap):
        # a search-space parameter the node does not hold yet counts as the (poor) default 6
        xs = [num(v) for d in snap for v in d.values()] + \
             [6.0 for d, exp in zip(snap, self.expected) for p in exp if p not in d]
        s = sum(xs)
        if kind == 'sum':
            return s
        if kind == 'neg':
            return -s
        if kind == 'quad':
            return sum((x - 2.0) ** 2 for x in xs) / 4
        if kind == 'const':
            return 1.5
        if kind == 'zero':
            return 0.0
        if kind in ('near', 'nearneg'):
            # slightly worse than the input for every change (within a 25% deviation)
            return (8.0 if kind == 'near' else -8.0) + self._value('initmin', snap) / 8
        if kind == 'initmin':
            t = 0.0
            for d, d0 in zip(snap, self.input_snap):
                for k, v in d.items():
                    t += abs(num(v) - num(d0[k])) if k in d0 else 1.0
            return t
        raise ValueError(kind)

    def _metric(self, kind, graph, reference=None):
        snap = snapshot(graph)
        fail = self.ospec.get('fail')
        if fail == 'mod3' and int(math.floor(sum(num(v) for d in snap for v in d.values()) * 4)) % 3 == 0:
            raise ValueError('objective fails on this assignment')
        if fail == 'on-set' and snap_key(snap) != snap_key(self.input_snap):
            raise ValueError('objective fails on this assignment')
        if fail == 'on-init' and snap_key(snap) == snap_key(self.input_snap):
            raise ValueError('objective fails on this assignment')
        v = q64(self._value(kind, snap))
        if reference == 'input':
            v = abs(v - q64(self._value(kind, self.input_snap)))
        elif reference is not None:
            v = abs(v - reference)
        return rescale(self.ospec.get('scale'), v)

    def evaluate(self, graph):
        # the documented extension point: pass the evaluator's reference data to the metrics
        fit = self._objective(graph, reference=self.ospec.get('reference'))
        if isinstance(fit, MultiObjFitness):
            r = ['M'] + [float(x) for x in fit.values]
        elif fit.valid:
            r = ['S', float(fit.value)]
        else:
            r = ['I']
        if not self.silent:
            tok = next((k for k, o in enumerate(self.objects) if o is graph), None)
            if tok is None:
                self.objects.append(graph)
                tok = len(self.objects) - 1
            self.events.append(('eval', tok, snapshot(graph), r))
        return fit


class LoggingSpace(SearchSpace):
    def __init__(self, d, events, working):
        super().__init__(d)
        self._events, self._working = events, working

    def get_parameters_for_operation(self, operation_name):
        self._events.append(('mark', None))
        return super().get_parameters_for_operation(operation_name)


# ----------------------------------------------------------------------------------------
# running one tuning
# ----------------------------------------------------------------------------------------
def run_impl(case):
    _silence()
    sspec, gspec, ospec, t = case['space'], case['graph'], case['objective'], case['tuner']
    graph = build_graph(gspec)
    input_copy = deepcopy(graph)
    uid_ix = {n.uid: i for i, n in enumerate(graph.nodes)}
    events, working = [], [graph]
    expected = [list(sspec.get(n.name, {})) if ospec.get('defaults', True) else [] for n in graph.nodes]
    ev = Evaluator(ospec, snapshot(graph), events, working, expected)
    space = LoggingSpace(build_space(sspec), events, working)
    kw = {'iterations': t['iterations'], 'n_jobs': 1, 'deviation': t['deviation']}
    kw['timeout'] = timedelta(minutes=5)
    if t['kind'] == 'sequential':
        kw['inverse_node_order'] = bool(t.get('inverse'))
    raised, result = None, None
    tuner = None
    sink = io.StringIO()
    try:
        with contextlib.redirect_stdout(sink), contextlib.redirect_stderr(sink):
            tuner = CLS[t['kind']](ev, space, None, **kw)
            if case.get('entry'):
                result = tuner.tune_node(graph, case['entry']['node'])
            else:
                result = tuner.tune(graph, show_progress=False)
    except Exception as ex:  # observed behaviour, judged by holds_b
        raised = '%s: %s' % (type(ex).__name__, str(ex)[:120])
    end_snap = snapshot(graph)
    # which evaluated object is the WORKING graph (the one the trials mutate)?  The input object when it was
    # evaluated after the initial check (the tuners work in place), else the most often evaluated object
    toks = [e[1] for e in events if e[0] == 'eval'][1:]
    in_tok = next((k for k, o in enumerate(ev.objects) if o is graph), None)
    if in_tok in toks:
        wtok = in_tok
    else:
        wtok = max(toks, key=lambda k: (toks.count(k), -toks.index(k))) if toks else None
        if wtok is not None and toks.count(wtok) < 2 and len(toks) < 2:
            wtok = None          # one evaluation of another object: the final check of a copy
    events[:] = [(e[0], e[1] == wtok, e[2], e[3]) if e[0] == 'eval' else e for e in events]
    # OptunaTuner keeps its study as a public attribute: the proposals themselves are observable
    study = None
    if raised is None and t['kind'] == 'optuna' and getattr(tuner, 'study', None) is not None:
        try:
            study = {'trials': [[(str(k), canon_val(v)) for k, v in tr.params.items()] for tr in tuner.study.trials],
                     'bests': [[(str(k), canon_val(v)) for k, v in tr.params.items()] for tr in tuner.study.best_trials]}
        except Exception:
            study = None

    def structure(g):
        fresh = {}
        out = []
        for n in g.nodes:
            ps = [uid_ix[p.uid] if p.uid in uid_ix else 1000 + fresh.setdefault(p.uid, len(fresh)) for p in n.nodes_from]
            u = uid_ix[n.uid] if n.uid in uid_ix else 1000 + fresh.setdefault(n.uid, len(fresh))
            out.append({'uid': u, 'name': n.name, 'params': {str(k): canon_val(v) for k, v in n.parameters.items()},
                        'parents': ps})
        return out

    def fit_of(g):
        ev.silent = True
        try:
            f = ev.evaluate(g)
        finally:
            ev.silent = False
        if isinstance(f, MultiObjFitness):
            return ['M'] + [float(x) for x in f.values]
        return ['S', float(f.value)] if f.valid else ['I']

    obs = {'raised': raised, 'multi': False, 'graphs': [], 'init_metric': None, 'reported': None,
           'metric_in': fit_of(input_copy), 'metric_ret': [], 'extra_table': []}
    obs['extra_table'].append((snapshot(input_copy), obs['metric_in']))
    if raised is None:
        multi = isinstance(result, (list, tuple))
        graphs = list(result) if multi else [result]
        obs['multi'] = multi
        obs['graphs'] = [structure(g) for g in graphs]
        obs['metric_ret'] = [fit_of(g) for g in graphs]
        obs['extra_table'] += [(snapshot(g), m) for g, m in zip(graphs, obs['metric_ret'])]
        obs['init_metric'] = metric_of_attr(tuner.init_metric)
        rep = tuner.obtained_metric
        if rep is None:
            obs['reported'] = None
        elif multi:
            obs['reported'] = [metric_of_attr(m) for m in rep]
        else:
            obs['reported'] = metric_of_attr(rep)
    return {'input': structure(input_copy), 'events': events, 'end_snap': end_snap, 'obs': obs, 'study': study,
            'input_mutated': snap_key(end_snap) != snap_key(snapshot(input_copy))}


def metric_of_attr(m):
    """tuner.init_metric / obtained_metric value -> ['I'] | ['S', x] | ['M', ...]"""
    if isinstance(m, (list, tuple)):
        return ['M'] + [float(x) for x in m]
    if m is None:
        return None
    m = float(m)
    return ['I'] if math.isinf(m) and m > 0 else ['S', m]


# ----------------------------------------------------------------------------------------
# proposer inference from the log
# ----------------------------------------------------------------------------------------
def label(i, name, p):
    return '%d || %s | %s' % (i, name, p)


def infer_node(sspec, names, i, node_snap):
    ps = sspec.get(names[i], {})
    return [(label(i, names[i], p), node_snap[p]) for p in ps if p in node_snap]


def infer_graph(sspec, names, snap):
    out = []
    for i in range(len(names)):
        out += infer_node(sspec, names, i, snap[i])
    return out


def fit_min(results):
    best = ['I']
    for r in results:
        if r[0] == 'S' and (best[0] == 'I' or r[1] < best[1]):
            best = r
    return best


def build_proposer(case, run):
    sspec, t = case['space'], case['tuner']
    names = [n['name'] for n in run['input']]
    events = run['events']
    evals = [e for e in events if e[0] == 'eval']
    pr = {'trials': [], 'final': None, 'bests': [], 'steps': []}
    if not evals:
        return pr
    init_res = evals[0][3]
    raised = run['obs']['raised'] is not None
    if case.get('entry'):
        i = case['entry']['node']
        rest = evals[1:]
        if rest:
            trials = rest if raised else rest[:-1]
            pr['steps'].append({'trials': [infer_node(sspec, names, i, e[2][i]) for e in trials],
                                'best': infer_node(sspec, names, i, rest[-1][2][i]),
                                'loss': fit_min([e[3] for e in trials])})
        return pr
    if t['kind'] == 'sequential':
        order = list(range(len(names)))
        if t.get('inverse'):
            order.reverse()
        # the last evaluation of a run that returned is the final check; marks (our SearchSpace is queried once
        # per node) segment the rest into the per-node steps
        last_eval = None if raised else max((k for k, e in enumerate(events) if e[0] == 'eval'), default=None)
        groups, seen_init = [], False
        for k, e in enumerate(events):
            if e[0] == 'eval' and not seen_init:
                seen_init = True
                continue
            if not seen_init:
                continue
            if e[0] == 'mark':
                groups.append({'evals': []})
            elif k != last_eval and groups:
                groups[-1]['evals'].append(e)
        final_snap = events[last_eval][2] if last_eval is not None and seen_init and last_eval > 0 else run['end_snap']
        for k, grp in enumerate(groups):
            if k >= len(order):
                break
            i = order[k]
            if not sspec.get(names[i]) or not grp['evals']:
                continue
            # the node's parameters after the step: visible in the next evaluation of the working graph
            later = [e for g2 in groups[k + 1:] for e in g2['evals']]
            after = later[0][2] if later else final_snap
            pr['steps'].append({'trials': [infer_node(sspec, names, i, e[2][i]) for e in grp['evals']],
                                'best': infer_node(sspec, names, i, after[i]),
                                'loss': fit_min([e[3] for e in grp['evals']])})
        return pr
    work = [e for e in evals[1:] if e[1]]
    other = [e for e in evals[1:] if not e[1]]
    multi_mode = t['kind'] in ('optuna', 'iopt') and init_res[0] == 'M' and len(init_res) > 2
    study = run.get('study')
    if study and study['trials']:
        # the real proposals of optuna (not inferred from the evaluated graphs)
        pr['trials'] = study['trials']
        if multi_mode:
            pr['bests'] = study['bests']
        elif study['bests']:
            pr['final'] = study['bests'][0]
        return pr
    if multi_mode or run['obs']['raised'] is not None:
        pr['trials'] = [infer_graph(sspec, names, e[2]) for e in work]
        pr['bests'] = [infer_graph(sspec, names, e[2]) for e in other]
    elif work:
        pr['trials'] = [infer_graph(sspec, names, e[2]) for e in work[:-1]]
        pr['final'] = infer_graph(sspec, names, work[-1][2])
    return pr


# ----------------------------------------------------------------------------------------
# Coq printing
# ----------------------------------------------------------------------------------------
def c_value(v):
    if v is None:
        return 'VNone'
    if isinstance(v, bool):
        return '(VInt %s)' % c_Z(int(v))
    if isinstance(v, int):
        return '(VInt %s)' % c_Z(v)
    if isinstance(v, float):
        return '(VNum %s)' % c_Q(v)
    return '(VStr %s)' % c_str(v)


def c_dict(items):
    items = items.items() if isinstance(items, dict) else items
    return c_list(['(%s, %s)' % (c_str(k), c_value(v)) for k, v in items], '(string * value)')


def c_graph(nodes):
    return c_list(['(mkNode %s %s %s %s)' % (c_nat(n['uid']), c_str(n['name']), c_dict(n['params']),
                                             c_list([c_nat(p) for p in n['parents']], 'nat')) for n in nodes], 'node')


def c_ptype(spec):
    dist, *scope = spec
    if dist in ('uniformint', 'randint'):
        return '(Discrete %s %s)' % (c_Z(scope[0]), c_Z(scope[1]))
    if dist in ('uniform', 'loguniform'):
        return '(Continuous %s %s)' % (c_Q(scope[0]), c_Q(scope[1]))
    return '(Categorical %s)' % c_list([c_value(v) for v in scope[0]], 'value')


def c_space(sspec):
    return c_list(['(%s, %s)' % (c_str(op), c_list(['(%s, %s)' % (c_str(p), c_ptype(s)) for p, s in ps.items()],
                                                   '(string * ptype)')) for op, ps in sspec.items()], '(string * opspace)')


def c_fitness(r):
    if r[0] == 'I':
        return 'FInvalid'
    if r[0] == 'S':
        return '(FSingle %s)' % c_Q(r[1])
    return '(FMulti %s)' % c_list([c_Q(x) for x in r[1:]], 'Q')


def c_metric(r):
    if r[0] == 'I':
        return 'MInf'
    if r[0] == 'S':
        return '(MFin %s)' % c_Q(r[1])
    return '(MVec %s)' % c_list([c_Q(x) for x in r[1:]], 'Q')


def c_reported(r, multi):
    if r is None:
        return 'RNone'
    if multi:
        return '(RList %s)' % c_list([c_metric(m) for m in r], 'metric')
    return '(RMetric %s)' % c_metric(r)


def c_config(t):
    kind = {'simultaneous': 'Simultaneous', 'optuna': 'Optuna', 'iopt': 'IOpt',
            'sequential': '(Sequential %s)' % c_bool(bool(t.get('inverse')))}[t['kind']]
    return '(mkConfig %s %s true)' % (kind, c_Q(t['deviation']))


def c_proposer(pr):
    steps = ['(mkStep %s %s %s)' % (c_list([c_dict(d) for d in s['trials']], 'dict'), c_dict(s['best']), c_metric(s['loss']))
             for s in pr['steps']]
    return '(mkProposer %s %s %s %s)' % (c_list([c_dict(d) for d in pr['trials']], 'dict'),
                                         c_opt(pr['final'], c_dict, 'dict'),
                                         c_list([c_dict(d) for d in pr['bests']], 'dict'),
                                         c_list(steps, 'seq_step'))


def c_table(run):
    seen, rows = {}, []
    for snap, r in [(e[2], e[3]) for e in run['events'] if e[0] == 'eval'] + run['obs']['extra_table']:
        k = snap_key(snap)
        if k in seen:
            if seen[k] != r:
                raise AssertionError('objective is not a function of the assignment: %r vs %r' % (seen[k], r))
            continue
        seen[k] = r
        rows.append('(%s, %s)' % (c_list([c_dict(d) for d in snap], 'dict'), c_fitness(r)))
    return c_list(rows, '(list dict * fitness)')


def c_observed(obs):
    im = obs['init_metric'] if obs['init_metric'] is not None else ['I']
    return '(mkObserved %s %s %s %s %s %s %s)' % (
        c_bool(obs['raised'] is not None), c_bool(obs['multi']),
        c_list([c_graph(g) for g in obs['graphs']], 'graph'), c_metric(im),
        c_reported(obs['reported'], obs['multi']), c_metric(obs['metric_in']),
        c_list([c_metric(m) for m in obs['metric_ret']], 'metric'))


def coq_case(case, run, obs=None):
    en = '(ETuneNode %s)' % c_nat(case['entry']['node']) if case.get('entry') else 'ETune'
    return '(%s, %s, %s, %s, %s, %s, %s)' % (en, c_config(case['tuner']), c_space(case['space']), c_table(run),
                                         c_proposer(build_proposer(case, run)), c_graph(run['input']),
                                         c_observed(obs or run['obs']))


# ----------------------------------------------------------------------------------------
# float-vs-Q ambiguity of the deviation threshold
# ----------------------------------------------------------------------------------------
def threshold_ambiguous(case, run):
    """the code computes init - |init|*dev/100 in binary64; the model in Q.  The two comparisons
    `obtained <= threshold` can differ only when an evaluated metric is within rounding distance of
    the exact threshold without the float computation being exact."""
    dev = case['tuner']['deviation']
    evals = [e for e in run['events'] if e[0] == 'eval']
    if not evals or evals[0][3][0] != 'S' or dev == 0:
        return False
    init = evals[0][3][1]
    if init == 0:
        return False
    thr = Fraction(init) - abs(Fraction(init)) * Fraction(dev) / 100
    for e in evals[1:]:
        if e[3][0] == 'S' and abs(Fraction(e[3][1]) - thr) <= Fraction(1, 10 ** 9) * abs(Fraction(init)):
            return True
    return False


# ----------------------------------------------------------------------------------------
# generators
# ----------------------------------------------------------------------------------------
OPS = ['a', 'b', 'e', 'k', 'scale | shift', 'x || y']
UNTUNABLE = ['c', 'd', 'c | d']


def gen_param(r, for_iopt):
    if r.random() < 0.12:
        # extreme magnitudes: log-scaled ranges far below 1e-6, a narrow range at 1e6, integers around 2^31
        return r.choice([['loguniform', 1e-9, 1e-7], ['loguniform', 1e-12, 1e-10], ['uniform', 1e6, 1e6 + 5],
                         ['uniformint', 2 ** 31 - 2, 2 ** 31 + (0 if for_iopt else 3)]])
    c = r.random()
    if c < 0.22:
        lo = r.choice([0, 1, 2])
        return ['uniformint', lo, lo + r.choice([1, 2] if for_iopt else [1, 2, 5])]
    if c < 0.36:
        lo = r.choice([1, 2])
        return ['randint', lo, lo + r.choice([2, 3] if for_iopt else [2, 3, 8])]
    if c < 0.62:
        lo = r.choice([0.25, 0.5, 1.0, -1.0])
        return ['uniform', lo, lo + r.choice([0.5, 1.0, 3.0])]
    if c < 0.78:
        return ['loguniform', r.choice([2.0 ** -6, 2.0 ** -3]), r.choice([1.0, 4.0])]
    return ['choice', r.choice([['A', 'B', 'C'], ['A', 'B'], ['B', None], [1, 2, 5], ['A', 3]])]


def gen_space(r, for_iopt):
    spec = {}
    for op in r.sample(OPS, r.choice([1, 2, 2, 3])):
        n = r.choice([1, 2, 2, 3]) if not for_iopt else r.choice([1, 2])
        short = op[0]
        fmt = r.choice(['%s%d', '%s%d', '%s rate %d', 'max %s %d'])
        spec[op] = {fmt % (short, j + 1): gen_param(r, for_iopt) for j in range(n)}
    if for_iopt and r.random() < 0.9:
        op = r.choice(sorted(spec))
        spec[op]['%sf' % op[0]] = ['uniform', 0.5, r.choice([1.0, 2.0])]
    return spec


def value_inside(r, spec):
    dist, *scope = spec
    if dist == 'uniformint':
        return r.randint(scope[0], scope[1])
    if dist == 'randint':
        return r.randint(scope[0], scope[1] - 1)
    if dist in ('uniform', 'loguniform'):
        return scope[0] + (scope[1] - scope[0]) * r.choice([0.0, 0.25, 0.5, 0.75, 1.0])
    return r.choice([v for v in scope[0] if v is not None] or ['A'])


def value_outside(r, spec):
    dist, *scope = spec
    if dist in ('uniformint', 'randint'):
        return scope[1] + r.choice([3, 10])
    if dist in ('uniform', 'loguniform'):
        return scope[1] + r.choice([0.5, 2.0])
    return 'Q'


def gen_graph(r, sspec, n_nodes, init_mode, outside_rate=0.0):
    tun = sorted(sspec)
    spec = []
    for i in range(n_nodes):
        name = r.choice(tun) if (tun and r.random() < 0.6) else r.choice(UNTUNABLE + [op for op in OPS if op not in sspec])
        params = None
        ps = sspec.get(name, {})
        if init_mode != 'none' and r.random() < (0.8 if init_mode == 'full' else 0.5):
            params = {}
            for p, s in ps.items():
                if init_mode == 'full' or r.random() < 0.5:
                    params[p] = value_outside(r, s) if r.random() < outside_rate else value_inside(r, s)
            if r.random() < 0.5:
                params['zz'] = r.choice([5, 0.5, 'B', -2])
            if r.random() < 0.2:
                params['note'] = 'A'
        elif r.random() < 0.15:
            params = {}
        parents = [j for j in range(i + 1, n_nodes) if r.random() < (0.7 if j == i + 1 else 0.25)]
        spec.append({'name': name, 'params': params, 'parents': parents[:3]})
    return spec


def gen_objective(r, multi):
    single = ['sum', 'sum', 'sum', 'neg', 'neg', 'quad', 'quad', 'quad', 'initmin', 'const', 'zero', 'near', 'nearneg']
    fail = r.choice([None, None, None, None, None, None, 'mod3', 'mod3', 'on-set', 'on-init'])
    scale = r.choice([None, None, None, None, 'huge', 'tiny'])
    reference = r.choice([None, None, None, None, 'input', 4.0])
    if multi:
        return {'multi': True, 'metrics': r.choice([['sum', 'quad'], ['sum', 'neg'], ['quad', 'initmin'], ['initmin', 'const'],
                                                    ['neg', 'quad'], ['sum', 'sum'], ['near', 'initmin'], ['near', 'initmin']]),
                'fail': fail, 'scale': scale, 'reference': reference}
    return {'multi': False, 'metrics': [r.choice(single)], 'fail': fail, 'scale': scale, 'reference': reference}


def discrete_combinations(sspec, gspec):
    n = 1
    for node in gspec:
        for dist, *scope in sspec.get(node['name'], {}).values():
            if dist in ('uniformint', 'randint'):
                n *= max(1, scope[1] - scope[0])
            elif dist == 'choice':
                n *= len(scope[0])
    return n


MAX_EVENTS = 400


def gen_case(r, kind=None, multi=None):
    kind = kind or r.choice(KINDS)
    if multi is None:
        multi = kind in ('optuna', 'iopt') and r.random() < 0.3
    sspec = gen_space(r, kind == 'iopt') if r.random() < 0.95 else {}
    n_nodes = r.choice([1, 2, 3, 3, 4, 4, 5, 6])
    gspec = gen_graph(r, sspec, n_nodes, r.choice(['none', 'partial', 'partial', 'full']),
                      outside_rate=0.0)
    if kind == 'iopt':
        # iOpt evaluates every combination of discrete values: keep their number small
        for _ in range(50):
            if discrete_combinations(sspec, gspec) <= 12:
                break
            n_nodes = max(1, n_nodes - 1) if r.random() < 0.5 else n_nodes
            sspec = gen_space(r, True)
            gspec = gen_graph(r, sspec, n_nodes, r.choice(['none', 'partial', 'partial', 'full']))
    t = {'kind': kind, 'iterations': r.choice([1, 1, 2, 3, 3, 4, 5, 8, 12]),
         'deviation': r.choice([0.05, 0.05, 0.0, 25.0]), 'inverse': kind == 'sequential' and r.random() < 0.3}
    return {'space': sspec, 'graph': gspec, 'objective': gen_objective(r, multi), 'tuner': t}


def wide_cases(r, n):
    """graphs of 11-13 nodes (two-digit node ids): a chain 0 <- 1 <- ... with random skip edges, so graph.nodes is
    in index order; nodes 1 and 2 carry a parameter 'x' that the tuner must not touch (operation outside the
    search space, or in the space with ANOTHER range), nodes 10.. are tunable with a parameter of the same name"""
    out = []
    for c in range(n):
        n_nodes = r.choice([11, 12, 13])
        xa = r.choice([['uniformint', 1, 3], ['uniform', 0.5, 1.0], ['choice', [1, 2]]])
        sspec = {'a': {'x': xa, 'y': ['uniform', 0.25, 0.75]}}
        other_range = r.random() < 0.4
        if other_range:
            sspec['b'] = {'x': ['uniformint', 4, 5]}
        gspec = []
        for i in range(n_nodes):
            parents = [i + 1] if i + 1 < n_nodes else []
            parents += [j for j in range(i + 2, n_nodes) if r.random() < 0.12][:2]
            if i in (1, 2):
                name = 'b' if (other_range and i == 1) else r.choice(UNTUNABLE)
                params = {'x': 5, 'zz': r.choice([5, 'B'])}
            elif i >= 10:
                name, params = 'a', (None if r.random() < 0.7 else {'x': value_inside(r, xa)})
            else:
                name = r.choice(UNTUNABLE + ['e', 'a'] if i > 2 else UNTUNABLE)
                params = None if r.random() < 0.6 else {'q': 1}
            gspec.append({'name': name, 'params': params, 'parents': parents})
        t = {'kind': ['simultaneous', 'optuna'][c % 2], 'iterations': r.choice([2, 3, 4]), 'deviation': r.choice([0.05, 0.0])}
        out.append({'space': sspec, 'graph': gspec, 'objective': {'multi': False, 'metrics': [r.choice(['sum', 'sum', 'quad'])], 'fail': None},
                    'tuner': t})
    return out


def node_cases(r, n):
    """SequentialTuner.tune_node: a node with >= 2 search-space parameters (none / some / all initialised), or with
    one / none (tuning not possible); objectives that improve, that get worse for every change (fallback to the
    initial graph) and failing ones"""
    out = []
    for c in range(n):
        two = {'x': r.choice([['uniform', 1.0, 5.0], ['uniformint', 1, 4]]), 'y': ['uniform', 1.0, 5.0]}
        if r.random() < 0.3:
            two['max z'] = ['choice', [1, 2, 5]]
        opn = r.choice(['b', 'b', 'scale | shift'])
        sspec = {opn: two, 'k': {'k1': ['uniform', 0.5, 1.0]}}
        n_nodes = r.choice([1, 2, 3, 4])
        gspec = []
        for i in range(n_nodes):
            name = r.choice([opn, opn, 'k', 'c'])
            params = None
            if r.random() < 0.7:
                params = {p: value_inside(r, s) for p, s in sspec.get(name, {}).items() if r.random() < 0.5}
                if r.random() < 0.5:
                    params['fixed'] = 0.5
            gspec.append({'name': name, 'params': params, 'parents': [i + 1] if i + 1 < n_nodes else []})
        kind = r.choice(['sum', 'sum', 'neg', 'quad', 'near', 'initmin', 'const'])
        out.append({'space': sspec, 'graph': gspec,
                    'objective': {'multi': r.random() < 0.1, 'metrics': [kind] if True else None,
                                  'fail': r.choice([None, None, None, 'mod3', 'on-set']),
                                  'defaults': r.random() < 0.5},
                    'tuner': {'kind': 'sequential', 'iterations': r.choice([1, 2, 3, 5, 8]), 'deviation': r.choice([0.05, 0.0, 25.0])},
                    'entry': {'node': r.randrange(n_nodes)}})
        tun = [i for i, nd in enumerate(gspec) if nd['name'] == opn]
        if tun and r.random() < 0.8:
            out[-1]['entry'] = {'node': r.choice(tun)}      # chains: graph.nodes is in index order
        if out[-1]['objective']['multi']:
            out[-1]['objective']['metrics'] = [kind, 'quad']
    # the input class of the round-4 seeded change: x initialised, y not, every value of y makes the sum worse
    out.append({'space': {'b': {'x': ['uniform', 1.0, 5.0], 'y': ['uniform', 1.0, 5.0]}},
                'graph': [{'name': 'b', 'params': {'x': 1.0}, 'parents': [1]}, {'name': 'a', 'params': {'fixed': 0.5}, 'parents': []}],
                'objective': {'multi': False, 'metrics': ['sum'], 'fail': None, 'defaults': False},
                'tuner': {'kind': 'sequential', 'iterations': 8, 'deviation': 0.05}, 'entry': {'node': 0}})
    return out


def corner_cases():
    """fixed corner inputs (nothing to tune, one node, empty graph / space, unsupported modes)"""
    sp1 = {'a': {'x': ['uniformint', 1, 3], 'y': ['uniform', 0.5, 1.0]}}
    spd = {'a': {'x': ['uniformint', 1, 3]}}
    spc = {'k': {'c': ['choice', ['A', 'B']], 'f': ['uniform', 0.5, 1.0]}}
    one = [{'name': 'a', 'params': None, 'parents': []}]
    one_init = [{'name': 'a', 'params': {'x': 2, 'y': 0.75, 'zz': 5}, 'parents': []}]
    unt = [{'name': 'c', 'params': {'q': 1}, 'parents': [1]}, {'name': 'd', 'params': None, 'parents': []}]
    out = []
    # first IOpt run of the process (iOpt's shared default Solution is still pristine): AttributeError
    out.append({'space': sp1, 'graph': one, 'objective': {'multi': False, 'metrics': ['sum'], 'fail': 'on-set'},
                'tuner': {'kind': 'iopt', 'iterations': 2, 'deviation': 0.05}, 'corner': 'iopt-all-invalid-fresh'})
    for kind in KINDS:
        base = {'kind': kind, 'iterations': 2, 'deviation': 0.05}
        S = {'multi': False, 'metrics': ['sum'], 'fail': None}
        M = {'multi': True, 'metrics': ['sum', 'quad'], 'fail': None}
        out.append({'space': sp1, 'graph': unt, 'objective': S, 'tuner': base, 'corner': 'untunable-graph'})
        out.append({'space': {}, 'graph': one_init, 'objective': S, 'tuner': base, 'corner': 'empty-space'})
        out.append({'space': sp1, 'graph': [], 'objective': S, 'tuner': base, 'corner': 'empty-graph'})
        out.append({'space': sp1, 'graph': one, 'objective': S, 'tuner': dict(base, iterations=1), 'corner': 'one-node'})
        out.append({'space': sp1, 'graph': one_init, 'objective': S, 'tuner': base, 'corner': 'one-node-init'})
        out.append({'space': sp1, 'graph': one_init, 'objective': {'multi': False, 'metrics': ['initmin'], 'fail': None},
                    'tuner': dict(base, deviation=0.0), 'corner': 'min-at-init'})
        out.append({'space': sp1, 'graph': one, 'objective': M, 'tuner': base, 'corner': 'multi-objective'})
        out.append({'space': sp1, 'graph': unt, 'objective': M, 'tuner': base, 'corner': 'multi-untunable'})
        out.append({'space': sp1, 'graph': one, 'objective': dict(M, fail='on-init'), 'tuner': base,
                    'corner': 'multi-invalid-init'})
        out.append({'space': sp1, 'graph': one, 'objective': dict(S, fail='on-set'), 'tuner': base,
                    'corner': 'tuned-invalid'})
        out.append({'space': sp1, 'graph': one, 'objective': dict(M, fail='on-set'), 'tuner': base,
                    'corner': 'multi-tuned-invalid'})
        out.append({'space': sp1, 'graph': one, 'objective': dict(S, fail='on-init'), 'tuner': base,
                    'corner': 'init-invalid'})
        out.append({'space': spd, 'graph': one, 'objective': S, 'tuner': base, 'corner': 'discrete-only'})
        out.append({'space': spc, 'graph': [{'name': 'k', 'params': {'c': 'B'}, 'parents': []}], 'objective': S,
                    'tuner': base, 'corner': 'categorical'})
    out.append({'space': sp1, 'graph': one_init, 'objective': {'multi': False, 'metrics': ['neg'], 'fail': None},
                'tuner': {'kind': 'sequential', 'iterations': 3, 'deviation': 0.05, 'inverse': True}, 'corner': 'inverse'})
    # extreme magnitudes: tiny log-scaled ranges (hyperopt tuners), objectives around 2^30 and 2^-40
    spm = {'a': {'x': ['loguniform', 1e-9, 1e-7], 'w': ['loguniform', 1e-12, 1e-10]}}
    spn = {'a': {'y': ['uniform', 1e6, 1e6 + 5], 'n': ['uniformint', 2 ** 31 - 2, 2 ** 31]}}
    for kind in KINDS:
        # tiny values beat the default 6 of an unset parameter (sum); large values win under -sum
        out.append({'space': spm, 'graph': one, 'objective': {'multi': False, 'metrics': ['sum'], 'fail': None},
                    'tuner': {'kind': kind, 'iterations': 3, 'deviation': 0.0}, 'corner': 'tiny-log-ranges'})
        out.append({'space': spn, 'graph': one, 'objective': {'multi': False, 'metrics': ['neg'], 'fail': None},
                    'tuner': {'kind': kind, 'iterations': 3, 'deviation': 0.0}, 'corner': 'large-ranges'})
        for scale in ('huge', 'tiny'):
            out.append({'space': sp1, 'graph': one, 'objective': {'multi': False, 'metrics': ['sum'], 'fail': None, 'scale': scale},
                        'tuner': {'kind': kind, 'iterations': 3, 'deviation': 0.0}, 'corner': 'extreme-metric-' + scale})
    for kind in ('optuna', 'iopt'):
        for scale in ('huge', 'tiny'):
            # every change is worse in both objectives: the input dominates whatever the search finds
            out.append({'space': sp1, 'graph': one, 'objective': {'multi': True, 'metrics': ['near', 'initmin'], 'fail': None, 'scale': scale},
                        'tuner': {'kind': kind, 'iterations': 4, 'deviation': 0.05}, 'corner': 'dominating-input-' + scale})
    # the objective is a user subclass of ObjectiveEvaluate whose evaluate() passes reference data: the input is
    # optimal (distance 0 to its own plain value), the bare Objective would prefer smaller sums
    for kind in KINDS:
        out.append({'space': sp1, 'graph': one, 'objective': {'multi': False, 'metrics': ['sum'], 'fail': None, 'reference': 'input'},
                    'tuner': {'kind': kind, 'iterations': 3, 'deviation': 0.0}, 'corner': 'evaluator-reference-input'})
        out.append({'space': sp1, 'graph': one_init, 'objective': {'multi': False, 'metrics': ['sum'], 'fail': None, 'reference': 4.0},
                    'tuner': {'kind': kind, 'iterations': 3, 'deviation': 0.05}, 'corner': 'evaluator-reference-4'})
    sps = {'scale | shift': {'p': ['uniform', 0.5, 1.0], 'max depth': ['uniformint', 1, 3]},
           'x || y': {'learning rate': ['uniform', 0.25, 0.75]}}
    gs = [{'name': 'scale | shift', 'params': {'p': 1.0, 'note': 'A'}, 'parents': [1]},
          {'name': 'x || y', 'params': None, 'parents': [2]},
          {'name': 'c | d', 'params': {'p': 5, 'q': 1}, 'parents': []}]
    for kind in KINDS:
        out.append({'space': sps, 'graph': gs, 'objective': {'multi': False, 'metrics': ['sum'], 'fail': None},
                    'tuner': {'kind': kind, 'iterations': 3, 'deviation': 0.0}, 'corner': 'separators-in-names'})
    return out


# ----------------------------------------------------------------------------------------
# classification of observed violations (known defect classes of the pinned tree)
# ----------------------------------------------------------------------------------------
def has_tunable(case):
    return any(case['space'].get(n['name']) for n in case['graph'])


def iopt_all_trials_invalid(case, run):
    """IOptTuner, objective valid on the input, something (continuous) to tune, and iOpt obtained no valid
    trial: every point it evaluated is invalid (or its first iteration failed internally and nothing was
    evaluated); iOpt then hands back its shared default Solution"""
    sspec = case['space']
    if case['tuner']['kind'] != 'iopt' or run['obs']['metric_in'][0] == 'I':
        return False
    if not any(TYPE[s[0]] == 'continuous' for n in case['graph'] for s in sspec.get(n['name'], {}).values()):
        return False
    multi_mode = run['obs']['metric_in'][0] == 'M'
    work = [e for e in run['events'] if e[0] == 'eval'][1:]
    work = [e for e in work if e[1]]
    trials = work if (multi_mode or run['obs']['raised'] is not None) else work[:-1]
    return all(e[3][0] != run['obs']['metric_in'][0] for e in trials)


def finding_key(case, run):
    """known defect classes of the pinned tree (exact input classes ruled by the coordinator)"""
    obs, t, sspec = run['obs'], case['tuner'], case['space']
    kind = t['kind']
    multi_obj = case['objective']['multi']
    init_invalid = obs['metric_in'][0] == 'I'
    if iopt_all_trials_invalid(case, run):
        return ('C19.iopt-all-trials-invalid',
                'IOptTuner: every point iOpt evaluated is invalid, iOpt hands back its shared default solution '
                '(AttributeError in a fresh process, a stale point of an earlier run otherwise)')
    if obs['raised'] is None:
        return None, None
    if multi_obj and init_invalid:
        return 'C19.multiobj-invalid-init-raises', 'multi-objective objective invalid on the input graph: tune() raises'
    if multi_obj and kind in ('simultaneous', 'sequential'):
        return 'C19.multiobj-unsupported-raises', 'tuner without multi-objective support raises instead of returning the graph'
    if kind == 'iopt' and has_tunable(case):
        floats = [(n, p, s) for n in case['graph'] for p, s in sspec.get(n['name'], {}).items() if TYPE[s[0]] == 'continuous']
        if not floats:
            return 'C19.iopt-no-float-raises', 'IOptTuner without a continuous parameter: iOpt refuses the problem'
    return None, None


def case_key(case):
    return repr((case['space'], case['graph'], case['objective'], case['tuner'], case.get('entry')))


def facts(case, run):
    obs = run['obs']
    evals = [e for e in run['events'] if e[0] == 'eval']
    ret_init = (obs['raised'] is None and not obs['multi'] and obs['graphs']
                and all(a['params'] == b['params'] for a, b in zip(run['input'], obs['graphs'][0])))
    return dict(tuner=case['tuner']['kind'], entry='tune_node' if case.get('entry') else 'tune', input_mutated=run['input_mutated'],
                multi=case['objective']['multi'], nodes=len(case['graph']),
                iterations=case['tuner']['iterations'], objective='+'.join(case['objective']['metrics']),
                fail=case['objective'].get('fail'), scale=case['objective'].get('scale'), reference=case['objective'].get('reference'), deviation=case['tuner']['deviation'],
                tunable=has_tunable(case), raised=obs['raised'] is not None,
                outcome=('raised' if obs['raised'] else 'multi' if obs['multi'] else 'init-returned' if ret_init else 'tuned-returned'),
                evaluations=min(len(evals), 50) // 5 * 5)


# ----------------------------------------------------------------------------------------
# driver
# ----------------------------------------------------------------------------------------
def evaluate_cases(ctx, group, cases):
    runs, terms, kept = [], [], []
    skipped = too_long = 0
    for case in cases:
        run = run_impl(case)
        if threshold_ambiguous(case, run):
            skipped += 1
            continue
        if len(run['events']) > MAX_EVENTS:
            too_long += 1
            continue
        runs.append(run)
        kept.append(case)
        terms.append(coq_case(case, run))
    if too_long:
        ctx.notes.append('%s: %d case(s) skipped: more than %d logged events' % (group, too_long, MAX_EVENTS))
    if skipped:
        ctx.notes.append('%s: %d case(s) skipped: a metric within binary64 rounding distance of the deviation threshold' % (group, skipped))
    res = ctx.coq_cases(group, REQ, FN, terms, NB, shard=40, preamble=PREAMBLE) if terms else []
    for case, run, (ag, ho, hyp, rng) in zip(kept, runs, res):
        f = facts(case, run)
        nontrivial = f['tunable'] and not f['raised']
        ctx.count(group, key=case_key(case), nontrivial=nontrivial, labels_hypothesis=hyp, proposals_in_range=rng, **f)
        slim = {k: case[k] for k in ('space', 'graph', 'objective', 'tuner', 'entry') if k in case}
        slim['observed'] = {k: run['obs'][k] for k in ('raised', 'multi', 'init_metric', 'reported', 'metric_in', 'metric_ret')}
        slim['returned_params'] = [[n['params'] for n in g] for g in run['obs']['graphs']]
        if not ho:
            key, what = finding_key(case, run)
            ctx.violate(group, slim, what or 'the observed tuning outcome violates a clause of C19 (holds_b = false)', finding_key=key)
        if not ag:
            ctx.disagree(group, slim, 'model outcome differs from the implementation (proposer = logged evaluations)')
        if not hyp:
            ctx.disagree(group, slim, 'inferred proposer uses a label outside the search space (labels hypothesis false)')
    return kept, runs, res


def canary(ctx):
    """a wrong observation (outside-space parameter changed, reported metric shifted) must be flagged"""
    case = {'space': {'a': {'x': ['uniformint', 1, 3], 'y': ['uniform', 0.5, 1.0]}},
            'graph': [{'name': 'a', 'params': {'x': 3, 'y': 1.0, 'zz': 5}, 'parents': [1]},
                      {'name': 'c', 'params': {'q': 1}, 'parents': []}],
            'objective': {'multi': False, 'metrics': ['sum'], 'fail': None},
            'tuner': {'kind': 'optuna', 'iterations': 3, 'deviation': 0.05}}
    run = run_impl(case)
    good = coq_case(case, run)
    obs = deepcopy(run['obs'])
    obs['graphs'][0][1]['params']['q'] = 2
    if obs['reported'] is not None:
        obs['reported'] = ['S', obs['reported'][1] + 1.0]
    bad = coq_case(case, run, obs)
    ctx.canaries += 1
    res = ctx.coq_cases('canary', REQ, FN, [good, bad], NB, preamble=PREAMBLE)
    if res[0][:2] == (True, True) and res[1][:2] == (False, False):
        ctx.canaries_caught += 1


def run(ctx):
    ctx.rule = ('real tuners (Simultaneous, Sequential, Optuna, IOpt; n_jobs=1) on random OptGraphs <= 6 nodes '
                '(tunable / untunable / partially initialised) x random search spaces '
                '(uniformint, randint, uniform, loguniform, choice incl. None) x objectives on a 1/64 grid (sum, neg, quad, '
                'minimum at the initial point, slightly worse than the input elsewhere, constant; failing on a third of the assignments / on every tuned assignment / '
                'on the input) x iterations 1..12 x deviation {0.05, 0, 25}; single- and multi-objective (Optuna / IOpt), plus a '
                'fixed list of corner inputs for every tuner, plus chains of 11-13 nodes (two-digit node ids; frozen nodes 1, 2 share a '
                'parameter name with tunable nodes 10..) for Simultaneous / Optuna, and a group driving the second entry point '
                'SequentialTuner.tune_node(graph, node_index); operation names may contain the label separators (" | ", " || "), '
                'parameter names spaces; ranges and objective values also at extreme magnitudes (log-uniform [1e-9,1e-7] / [1e-12,1e-10], '
                'uniform [1e6,1e6+5], integers around 2^31; objectives offset by 2^30 or scaled by 2^-40); the objective is always a user '
                'subclass of ObjectiveEvaluate overriding evaluate(), in a third of the cases passing reference data that changes the metric; distinct = distinct (space, graph, objective, tuner config); '
                'non-trivial = something to tune and tune() returned')
    ctx.trusted_extra = [
        'hyperopt / optuna / iOpt are arbitrary proposers to the model: their proposals are inferred from the logged '
        'evaluations (labels rebuilt from the search space; the per-node loss of the sequential tuner = minimum logged loss); '
        'for OptunaTuner the proposals are read from tuner.study (trials and best_trials) instead',
        'the clause "tuned parameters lie in their range" is proved only relative to the libraries proposing in range; '
        'the runs check it on the observed results',
        'identity adapter only; the working graph is recognised as the input object if the tuner evaluates it, else as the '
        'most often evaluated object (evaluations of other objects are copies); '
        'time budget abstracted (5 min timeout never reached)',
        'objective values are multiples of 1/64 so binary64 comparisons equal the Q comparisons; cases with a metric within '
        'rounding distance of the deviation threshold are skipped (counted in notes)']
    t0 = time.time()
    corners = corner_cases()
    kept, runs, res = evaluate_cases(ctx, 'corners', corners)
    for case, run_, r in list(zip(kept, runs, res))[:2]:
        ctx.sample({'case': {k: case[k] for k in ('space', 'graph', 'objective', 'tuner')},
                    'observed': {k: run_['obs'][k] for k in ('raised', 'multi', 'init_metric', 'reported', 'metric_in', 'metric_ret')},
                    'agree': r[0], 'holds': r[1]})
    n = ctx.budget(240, 2400)
    cases = []
    for i in range(n):
        kind = KINDS[i % 4]
        cases.append(gen_case(ctx.rng, kind=kind))
    kept, runs, res = evaluate_cases(ctx, 'random', cases)
    for case, run_, r in list(zip(kept, runs, res))[:3]:
        ctx.sample({'case': {k: case[k] for k in ('space', 'graph', 'objective', 'tuner')},
                    'observed': {k: run_['obs'][k] for k in ('raised', 'multi', 'init_metric', 'reported', 'metric_in', 'metric_ret')},
                    'returned_params': [[nd['params'] for nd in g] for g in run_['obs']['graphs']],
                    'agree': r[0], 'holds': r[1]})
    kept, runs, res = evaluate_cases(ctx, 'tune_node', node_cases(ctx.rng, ctx.budget(40, 300)))
    wide = wide_cases(ctx.rng, ctx.budget(16, 80))
    kept, runs, res = evaluate_cases(ctx, 'wide', wide)
    for case, run_ in zip(kept, runs):
        if [nd['name'] for nd in run_['input']] != [nd['name'] for nd in case['graph']]:
            ctx.error('wide', 'graph.nodes is not in the index order the generator relies on')
            break
    canary(ctx)
    ctx.notes.append('implementation + inference time %.1fs, coqc %.1fs' % (time.time() - t0 - ctx.coq_s, ctx.coq_s))


def replay(ctx, payload):
    v = payload.get('violation') or payload.get('first_disagreement') or payload
    case = v.get('case') if isinstance(v, dict) else None
    if not case or 'tuner' not in case:
        return
    case = {k: case[k] for k in ('space', 'graph', 'objective', 'tuner', 'entry') if k in case}
    # the libraries draw from OS entropy: repeat the configuration a few times
    evaluate_cases(ctx, 'replay', [deepcopy(case) for _ in range(int(payload.get('repeat', 5)))])
