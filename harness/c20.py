"""C20 - generators and builders produce only valid graphs within bounds.
Implementation: golem.core.optimisers.opt_graph_builder (OptGraphBuilder, merge_opt_graph_builders),
random_graph_factory (random_graph), initial_graphs_generator (InitialPopulationGenerator).
Model: coq/theories/Gen/Builder.v, coq/theories/Gen/Factory.v (agree / holds_b)."""
import itertools
import random as pyrandom

from common import c_bool, c_list, c_nat, c_opt, c_str, c_Z

import networkx as nx

from golem.core.adapter import DirectAdapter, IdentityAdapter
from golem.core.adapter.nx_adapter import DumbNetworkxAdapter
from golem.core.dag.graph_verifier import GraphVerifier
from golem.core.dag.verification_rules import DEFAULT_DAG_RULES
from golem.core.optimisers.graph import OptGraph, OptNode
from golem.core.optimisers.initial_graphs_generator import InitialPopulationGenerator
from golem.core.optimisers.opt_graph_builder import OptGraphBuilder, merge_opt_graph_builders
from golem.core.optimisers.opt_node_factory import DefaultOptNodeFactory
from golem.core.optimisers.optimization_parameters import GraphRequirements
from golem.core.optimisers.optimizer import GraphGenerationParams
from golem.core.optimisers.random_graph_factory import RandomGrowthGraphFactory, random_graph

REQ_B = ['Gen.Builder']
FN_B = ('fun c => match c with (k, cs, obs) => [agree k cs obs; holds_b k cs obs; uids_ok_b obs] end')

CNODE_TY = 'cnode'


# ----------------------------------------------------------------------------------------
# builder: calls as JSON-able lists, printing, driving the real class
# ----------------------------------------------------------------------------------------
def _opaque(kind):
    """values copy.deepcopy handles but pickle does not: a lambda, a nested function, an instance of a
    class defined inside a function"""
    if kind == 1:
        return lambda x: x * 2
    if kind == 2:
        def nested(x):
            return x + 1
        return nested

    class Local:
        def __repr__(self):
            return 'Local()'
    return Local()


def params_of(code):
    """params code -> dict: code % 100 is the plain value, code // 100 the kind of opaque extra value"""
    if not code:
        return None
    d = {'p': code % 100} if code % 100 else {}
    if code // 100:
        d['x'] = _opaque(code // 100)
    return d


def local_node_class():
    """a node class defined inside a function (deep-copyable, not picklable by reference)"""
    class LocalNode(OptNode):
        pass
    return LocalNode


def py_operation(o):
    """JSON operation -> python argument: None | str | (name, params)"""
    if o is None or isinstance(o, str):
        return o
    return (o[0], params_of(o[1]))


def c_ostr(s):
    return c_opt(s, c_str, 'string')


def c_operation(o):
    if o is None:
        return '(@None opv)'
    if isinstance(o, str):
        return '(Some (OStr %s))' % c_str(o)
    return '(Some (OTup %s %s))' % (c_ostr(o[0]), c_nat(o[1]))


def c_ops(ops):
    return c_list([c_operation(o) for o in ops], 'operation')


def c_call(c):
    k = c[0]
    if k == 'InitNode':       # OptGraphBuilder(adapter, LocalNode(name)) on a fresh builder = add_node(name) for the model
        return '(AddNode %s %s %s %s)' % (c_nat(c[1]), c_ostr(c[2]), c_Z(0), c_nat(0))
    if k == 'AddNode':
        return '(AddNode %s %s %s %s)' % (c_nat(c[1]), c_ostr(c[2]), c_Z(c[3]), c_nat(c[4]))
    if k == 'AddSequence':
        return '(AddSequence %s %s %s)' % (c_nat(c[1]), c_ops(c[2]), c_Z(c[3]))
    if k == 'GrowBranches':
        return '(GrowBranches %s %s)' % (c_nat(c[1]), c_ops(c[2]))
    if k == 'AddBranch':
        return '(AddBranch %s %s %s)' % (c_nat(c[1]), c_ops(c[2]), c_Z(c[3]))
    if k == 'AddSkip':
        return '(AddSkip %s %s)' % (c_nat(c[1]), ' '.join(c_Z(x) for x in c[2:6]))
    if k == 'JoinBranches':
        return '(JoinBranches %s %s %s)' % (c_nat(c[1]), c_ostr(c[2]), c_nat(c[3]))
    if k in ('Reset', 'ToNodes', 'Build'):
        return '(%s %s)' % (k, c_nat(c[1]))
    if k == 'Merge':
        return '(Merge %s %s)' % (c_nat(c[1]), c_nat(c[2]))
    raise ValueError(k)


def reach(heads):
    """LinkedGraph.add_node order: DFS preorder from every head, present nodes skipped"""
    order, seen = [], set()

    def add(n):
        if id(n) in seen:
            return
        seen.add(id(n))
        order.append(n)
        for p in n.nodes_from:
            add(p)
    for hd in heads:
        add(hd)
    return order


def node_params(n):
    p = n.content.get('params')
    if not p:
        return 0
    if isinstance(p, dict) and set(p.keys()) <= {'p', 'x'} and isinstance(p.get('p', 0), int):
        x = p.get('x')
        kind = 0 if 'x' not in p else (3 if not callable(x) else (1 if x.__name__ == '<lambda>' else 2))
        return 100 * kind + p.get('p', 0)
    raise AssertionError('unexpected params %r' % (p,))


def canon_nodes(order):
    """[(name, params, canonical uid, parent positions)] for the node objects in `order`"""
    pos = {}
    for i, n in enumerate(order):
        pos.setdefault(id(n), i)
    first_uid = {}
    for i, n in enumerate(order):
        first_uid.setdefault(n.uid, i)
    out = []
    for n in order:
        name = n.content.get('name')
        assert name is None or isinstance(name, str), name
        out.append([name, node_params(n), first_uid[n.uid], [pos.get(id(p), len(order)) for p in n.nodes_from]])
    return out


def c_cnode(cn):
    return '(%s, %s, %s, %s)' % (c_ostr(cn[0]), c_nat(cn[1]), c_nat(cn[2]), c_list([c_nat(p) for p in cn[3]], 'nat'))


def c_cgraph(g):
    return c_list([c_cnode(x) for x in g], CNODE_TY)


def c_cstate(s):
    return '(%s, %s)' % (c_cgraph(s[0]), c_list([c_list([c_nat(x) for x in hs], 'nat') for hs in s[1]], '(list nat)'))


def c_oret(r):
    k = r[0]
    if k in ('ORSelf', 'ORNone'):
        return k
    if k == 'ORNodes':
        return '(ORNodes %s %s)' % (c_cgraph(r[1]), c_bool(r[2]))
    if k == 'ORGraph':
        return '(ORGraph %s %s %s %s %s %s)' % (c_cgraph(r[1]), c_cgraph(r[2]), c_bool(r[3]), c_bool(r[4]),
                                               c_bool(r[5]), c_bool(r[6]))
    if k == 'ORBuilder':
        return '(ORBuilder %s)' % c_nat(r[1])
    raise ValueError(k)


def c_ostep(o):
    return '(mkOStep %s %s %s %s %s)' % (c_bool(o['raised']), c_oret(o['ret']), c_cstate(o['state']), c_bool(o['same']),
                                         c_bool(o['others']))


class DomNode(OptNode):
    """domain node class for DirectAdapter"""


class DomGraph(OptGraph):
    """domain graph class for DirectAdapter"""


class StrictGraph(OptGraph):
    """user domain graph class: equal only to graphs of its own kind"""

    def __eq__(self, other):
        if not isinstance(other, StrictGraph):
            return False
        return super().__eq__(other)


class TaggedGraph(OptGraph):
    """user domain graph class: equality also compares a domain-only (class) attribute"""
    domain_tag = 'user'

    def __eq__(self, other):
        return getattr(other, 'domain_tag', None) == self.domain_tag and super().__eq__(other)


DOMAIN_EQ = {'strict': StrictGraph, 'tagged': TaggedGraph}


ADAPTERS = ['none', 'identity', 'direct', 'direct_dom', 'dumb_nx']


def make_adapter(kind):
    """graph adapters a builder / GraphGenerationParams can be configured with"""
    if kind in (None, 'none'):
        return None
    if kind == 'identity':
        return IdentityAdapter()
    if kind == 'direct':
        return DirectAdapter()
    if kind == 'direct_dom':
        return DirectAdapter(DomGraph, DomNode)
    if kind == 'dumb_nx':
        return DumbNetworkxAdapter()
    raise ValueError(kind)


def built_nodes(g):
    """the node objects a built structure is made of, in listing order (OptGraph-like: .nodes;
    networkx graph of DumbNetworkxAdapter: the OptNode stored with every networkx node)"""
    if isinstance(g, nx.DiGraph):
        return [data['data'] for _, data in g.nodes(data=True)]
    return list(g.nodes)


def nx_structure_ok(g, nodes):
    """a networkx result mirrors the parent lists of the node objects it carries"""
    if not isinstance(g, nx.DiGraph):
        return True
    return (list(g.nodes) == [n.uid for n in nodes] and
            all(list(g.predecessors(n.uid)) == [p.uid for p in n.nodes_from] for n in nodes))


class Sim:
    """k real OptGraphBuilder objects (all with the same kind of graph adapter) driven by JSON calls,
    observed after every call"""

    def __init__(self, k, adapter='none'):
        self.objs = [OptGraphBuilder(make_adapter(adapter)) for _ in range(k)]

    def state(self):
        order = reach([h for b in self.objs for h in b.heads])
        pos = {}
        for i, n in enumerate(order):
            pos.setdefault(id(n), i)
        return [canon_nodes(order), [[pos[id(h)] for h in b.heads] for b in self.objs]]

    def reach_ids(self):
        return [[id(n) for n in reach(b.heads)] for b in self.objs]

    def all_ids(self):
        return {i for l in self.reach_ids() for i in l}

    def snapshots(self):
        """deep snapshot per builder: heads and, for every reachable node object, its name, params, uid
        value and parent objects"""
        return [([id(h) for h in b.heads],
                 [(id(n), repr(n.content.get('name')), repr(n.content.get('params')), n.uid,
                   tuple(id(p) for p in n.nodes_from)) for n in reach(b.heads)]) for b in self.objs]

    def do(self, c):
        k = c[0]
        objs = self.objs
        if k == 'Merge':
            if c[1] >= len(objs) or c[2] >= len(objs):
                return ['ORNone']
            r = merge_opt_graph_builders(objs[c[1]], objs[c[2]])
            if r is None:
                return ['ORNone']
            for i, o in enumerate(objs):
                if o is r:
                    return ['ORBuilder', i]
            assert isinstance(r, OptGraphBuilder)
            objs.append(r)
            return ['ORBuilder', len(objs) - 1]
        if c[1] >= len(objs):
            return ['ORNone']
        b = objs[c[1]]
        if k == 'InitNode':
            assert not b.heads
            objs[c[1]] = OptGraphBuilder(b.graph_adapter, local_node_class()(content={'name': c[2]}))
            return ['ORSelf']
        if k == 'AddNode':
            r = b.add_node(c[2], c[3], params_of(c[4]))
        elif k == 'AddSequence':
            r = b.add_sequence(*[py_operation(o) for o in c[2]], branch_idx=c[3])
        elif k == 'GrowBranches':
            r = b.grow_branches(*[py_operation(o) for o in c[2]])
        elif k == 'AddBranch':
            r = b.add_branch(*[py_operation(o) for o in c[2]], branch_idx=c[3])
        elif k == 'AddSkip':
            r = b.add_skip_connection_edge(c[2], c[3], c[4], c[5])
        elif k == 'JoinBranches':
            r = b.join_branches(c[2], params_of(c[3]))
        elif k == 'Reset':
            r = b.reset()
            return ['ORNone'] if r is None else ['ORSelf']
        elif k == 'ToNodes':
            ns = b.to_nodes()
            cl = reach(ns)
            mine = self.all_ids()
            return ['ORNodes', canon_nodes(cl), not any(id(n) in mine for n in cl)]
        elif k == 'Build':
            g1 = b.build()
            g2 = b.build()
            if g1 is None or g2 is None:
                assert g1 is None and g2 is None
                return ['ORNone']
            n1, n2 = built_nodes(g1), built_nodes(g2)
            c1, c2 = canon_nodes(n1), canon_nodes(n2)
            i1 = {id(n) for n in n1}
            i2 = {id(n) for n in n2}
            mine = self.all_ids()
            if isinstance(g1, nx.DiGraph):      # no structural == on networkx graphs: compare the structures
                eq = did = (c1 == c2) and nx_structure_ok(g1, n1) and nx_structure_ok(g2, n2)
            else:
                eq, did = bool(g1 == g2), g1.descriptive_id == g2.descriptive_id
            fresh = not ((i1 | i2) & mine)
            # independent: edit the first build, then neither the second build, nor a third build, nor
            # any builder may have changed
            snap = self.snapshots()
            n1[0].content['name'] = 'edited!'
            if isinstance(g1, nx.DiGraph):
                g1.remove_node(n1[-1].uid)
            elif len(n1) > 1:
                g1.delete_node(n1[-1])
            g3 = b.build()
            independent = (self.snapshots() == snap and canon_nodes(built_nodes(g2)) == c2 and
                           g3 is not None and canon_nodes(built_nodes(g3)) == c2)
            return ['ORGraph', c1, c2, eq, did, not (i1 & i2), fresh and independent]
        else:
            raise ValueError(k)
        # chained-call contract: the mutating methods return the builder itself
        return ['ORSelf'] if r is b else ['ORNone']

    def run(self, calls):
        obs = []
        for c in calls:
            before = self.reach_ids()
            snap = self.snapshots()
            target = c[1] if c[0] not in ('Merge', 'ToNodes', 'Build') else None
            raised = False
            try:
                ret = self.do(c)
            except Exception as ex:   # the property: the builder never raises
                raised = True
                ret = ['ORNone']
                self.last_exception = '%s: %s' % (type(ex).__name__, ex)
            after = self.reach_ids()
            snap2 = self.snapshots()
            others = all(snap2[i] == snap[i] for i in range(len(snap)) if i != target)
            obs.append({'raised': raised, 'ret': ret, 'state': self.state(), 'same': after[:len(before)] == before,
                        'others': others})
        return obs


def c_builder_case(k, calls, obs):
    return '(%s, %s, %s)' % (c_nat(k), c_list([c_call(c) for c in calls], 'call'),
                             c_list([c_ostep(o) for o in obs], 'ostep'))


OPS_SMALL = [None, 'a', ['b', 1]]


def alphabet(tier_full):
    """the small argument alphabet: every method, in-range / out-of-range indices, None
    operations, '' and (None, params) operations, two builder objects"""
    a = [
        ['AddSequence', 0, ['a', 'b'], 0], ['GrowBranches', 0, ['a', 'b']], ['AddBranch', 0, ['a', 'b'], 0],
        ['AddSkip', 0, 0, 0, 0, 2], ['AddSkip', 0, 0, 1, 0, 0], ['AddSkip', 0, 1, 0, 1, 0], ['AddSkip', 0, 0, 0, 2, 0],
        ['JoinBranches', 0, 'j', 0], ['Merge', 0, 0], ['AddNode', 0, 'b', 1, 1],
        ['AddNode', 0, 'c', -1, 0], ['AddBranch', 0, ['a', [None, 1]], -2], ['AddSkip', 0, -1, 0, -1, -2],
        ['AddNode', 0, 'a', 0, 0], ['AddNode', 0, None, 0, 0], ['AddNode', 0, 'c', 5, 0], ['AddNode', 0, 'd', -3, 0],
        ['AddSequence', 0, ['c', None, ['b', 1]], 1], ['AddSequence', 0, ['a', 'b'], -4],
        ['GrowBranches', 0, [None, 'c', 'a']],
        ['AddBranch', 0, [None, 'c'], 1], ['AddBranch', 0, ['a', 'c'], 7], ['AddBranch', 0, ['a', 'b'], -5],
        ['AddSkip', 0, 0, 3, 0, 0], ['AddSkip', 0, 0, 0, 0, 9], ['AddSkip', 0, -3, 0, 0, 0], ['AddSkip', 0, 0, 0, -9, 0],
        ['JoinBranches', 0, None, 0],
        ['Reset', 0], ['Build', 0], ['Merge', 0, 1], ['Merge', 1, 0],
        ['AddNode', 1, 'x', 0, 0], ['GrowBranches', 1, ['x', 'y']],
    ]
    if tier_full:
        a += [['JoinBranches', 0, '', 1], ['ToNodes', 0], ['AddBranch', 0, ['', 'a', ['', 2]], 0],
              ['AddSkip', 0, 1, 1, 0, 1], ['AddSequence', 1, ['x', 'y'], 0], ['AddSkip', 0, 0, 0, 1, 3]]
    return a


def random_call(r, nb):
    def op():
        return r.choice([None, 'a', 'b', 'c', '', ['d', 1], [None, 2], ['', 0], ['e', 0], ['f', 100], ['g', 203], ['h', 301]])

    def sop():
        return r.choice([None, 'a', 'b', 'c', ''])

    def idx():
        return r.choice([0, 0, 0, 1, 1, 2, 3, 6, -1, -1, -2, -3, -7])
    b = r.randrange(nb + 1) if r.random() < 0.1 else r.randrange(nb)
    k = r.choice(['AddNode', 'AddNode', 'AddSequence', 'GrowBranches', 'GrowBranches', 'AddBranch', 'AddBranch',
                  'AddSkip', 'AddSkip', 'AddSkip', 'JoinBranches', 'Reset', 'ToNodes', 'Build', 'Merge', 'Merge'])
    if k == 'AddNode':
        return [k, b, sop(), idx(), r.choice([0, 0, 1, 2, 101, 200, 302])]
    if k == 'AddSequence':
        return [k, b, [op() for _ in range(r.randrange(4))], idx()]
    if k == 'GrowBranches':
        return [k, b, [op() for _ in range(r.randrange(4))]]
    if k == 'AddBranch':
        return [k, b, [op() for _ in range(r.randrange(4))], idx()]
    if k == 'AddSkip':
        return [k, b, idx(), idx(), r.randrange(-6, 6), r.randrange(-6, 6)]
    if k == 'JoinBranches':
        return [k, b, sop(), r.choice([0, 0, 1, 201])]
    if k == 'Merge':
        return [k, r.randrange(nb), r.randrange(nb)]
    if k == 'Reset' and r.random() < 0.7:
        return ['Build', b]
    return [k, b]


def eval_builder(ctx, group, items, canary=False, adapter='none'):
    """items: list of (k, calls).  Runs the real builder (configured with the given kind of graph
    adapter), evaluates agree/holds_b in Coq."""
    cases, meta = [], []
    for k, calls in items:
        sim = Sim(k, adapter)
        obs = sim.run(calls)
        cases.append(c_builder_case(k, calls, obs))
        meta.append((k, calls, obs, getattr(sim, 'last_exception', None)))
    n_can = 0
    if canary and meta:
        # canary 1: pretend that build() returned a graph sharing nodes with the builder
        # canary 2: pretend that the skip connection closed a cycle
        # (built from real observations; skipped when the implementation is too broken to give them)
        try:
            k, calls = 1, [['AddSequence', 0, ['a', 'b', 'c'], 0], ['Build', 0]]
            obs = Sim(k).run(calls)
            obs[1]['ret'][6] = False
            c1 = c_builder_case(k, calls, obs)
            calls = [['AddSequence', 0, ['a', 'b', 'c'], 0], ['AddSkip', 0, 0, 0, 0, 2]]
            obs = Sim(k).run(calls)
            obs[1]['state'][0][2][3] = [0]      # the deepest node gets the head as parent
            c2 = c_builder_case(k, calls, obs)
            cases += [c1, c2]
            n_can = 2
            ctx.canaries += 2
        except Exception:
            n_can = 0
    res = ctx.coq_cases(group, REQ_B, FN_B, cases, 3, shard=250)
    if n_can:
        for ag, ho, _ in res[-n_can:]:
            if not ag and not ho:
                ctx.canaries_caught += 1
        res = res[:-n_can]
    for (k, calls, obs, exc), (ag, ho, uo) in zip(meta, res):
        case = {'kind': 'builder', 'k': k, 'calls': calls, 'adapter': adapter}
        kinds = sorted({c[0] for c in calls})
        nontrivial = any(len(o['state'][0]) >= 2 for o in obs)
        ctx.count(group, key=(k, repr(calls), adapter), nontrivial=nontrivial, length=len(calls), adapter=adapter,
                  max_nodes=min(12, max([len(o['state'][0]) for o in obs] + [0])),
                  has_merge='Merge' in kinds, has_skip='AddSkip' in kinds)
        if not ho:
            what = 'builder call sequence violates the contract'
            if any(o['raised'] for o in obs):
                what = 'builder call raised %s' % exc
            ctx.violate(group, case, what)
        elif not uo:
            ctx.violate(group, case, 'build() yields a graph with duplicate node uids')
        if not ag:
            ctx.disagree(group, case, 'model and OptGraphBuilder differ')
    return meta


# every exhaustive sequence ends with two builds of the first builder and of the first merged one
EPILOGUE = [['Build', 0], ['Build', 2]]


def run_builder(ctx):
    full = ctx.tier == 'thorough'
    alpha = alphabet(full)
    items = []
    # exhaustive: every sequence of length 1..2 over the whole alphabet; length 3 over its first 13
    # (quick) / 24 (thorough) calls; thorough: length 4 over its first 10 calls.  Every sequence
    # is followed by the build epilogue.
    scopes = [(1, len(alpha)), (2, len(alpha)), (3, ctx.pick(13, 24))] + ([(4, 10)] if full else [])
    for n, width in scopes:
        for seq in itertools.product(alpha[:width], repeat=n):
            items.append((2, list(seq) + EPILOGUE))
    n_exh = len(items)
    eval_builder(ctx, 'builder-exhaustive', items, canary=True)
    ctx.set_exhaustive('builder-exhaustive', True)
    # random longer sequences
    r = ctx.rng
    items = []
    for _ in range(ctx.budget(600, 8000)):
        nb = r.choice([1, 2, 2, 3])
        n = r.randrange(4, 14)
        calls = [random_call(r, nb) for _ in range(n)]
        calls.append(['Build', r.randrange(nb)])
        calls.append(['Build', nb])
        items.append((nb, calls))
    meta = eval_builder(ctx, 'builder-random', items)
    for m in meta[:2]:
        ctx.sample({'kind': 'builder', 'k': m[0], 'calls': m[1], 'observed_last': m[2][-1]})
    # node content that deepcopy handles but pickle does not (lambda / nested function / local class
    # instance in the params, a node class defined inside a function): every copy point must cope
    opaque = [['InitNode', 0, 'z'], ['AddNode', 0, 'a', 0, 101], ['AddNode', 0, 'b', 1, 202], ['JoinBranches', 0, 'j', 300],
              ['AddSequence', 0, ['a', ['b', 103]], 0], ['GrowBranches', 0, [['c', 201], 'd']],
              ['AddBranch', 0, [['e', 302], 'f'], 0], ['AddSkip', 0, 0, 0, 0, 1], ['ToNodes', 0], ['Build', 0],
              ['Merge', 0, 0], ['Merge', 0, 1], ['AddNode', 1, 'x', 0, 100]]
    items = []
    for n in ((1, 2, 3) if full else (1, 2)):
        for seq in itertools.product(opaque, repeat=n):
            if all(c[0] != 'InitNode' for c in seq[1:]):
                items.append((2, list(seq) + EPILOGUE))
    for adapter in ('none', 'dumb_nx'):
        eval_builder(ctx, 'builder-opaque-content', items if adapter == 'none' else items[:200], adapter=adapter)
    ctx.set_exhaustive('builder-opaque-content', False)
    # builders configured with a graph adapter: build() = adapter.restore(OptGraph(copies)); the same
    # model (canonical form of the node objects the result is made of), the same clauses
    for adapter in ADAPTERS[1:]:
        items = [(2, list(seq) + EPILOGUE) for n in (1, 2) for seq in itertools.product(alpha[:ctx.pick(12, 30)], repeat=n)]
        for _ in range(ctx.budget(60, 1000)):
            nb = r.choice([1, 2, 3])
            calls = [random_call(r, nb) for _ in range(r.randrange(4, 12))]
            items.append((nb, calls + [['Build', r.randrange(nb)], ['Build', nb]]))
        eval_builder(ctx, 'builder-adapter', items, adapter=adapter)
    ctx.set_exhaustive('builder-adapter', False)
    return n_exh


# ----------------------------------------------------------------------------------------
# random graph factory / initial population generator
# ----------------------------------------------------------------------------------------
REQ_F = ['Gen.Factory']
TYPES = ['a', 'b', 'c']


def to_tree(graph, types):
    """[type index, [children...]] from the first listed node (the root is created first);
    children = nodes_from in order"""
    def rec(n, depth):
        if depth > 64:
            raise AssertionError('not a tree')
        return [types.index(n.content['name']), [rec(p, depth + 1) for p in n.nodes_from]]
    return rec(graph.nodes[0], 0)


def c_tree(t):
    return '(T %s %s)' % (c_nat(t[0]), c_list([c_tree(k) for k in t[1]], 'tree'))


def tree_nodes(t):
    return 1 + sum(tree_nodes(k) for k in t[1])


def c_vkind(v):
    return v[0] if len(v) == 1 else '(%s %s)' % (v[0], c_nat(v[1]))


def c_req(md, mn, mx):
    return '(mkReq %s %s %s)' % (c_nat(md), c_nat(mn), c_nat(mx))


def make_rules(v, types, recorder=None):
    """rule list for a verifier kind; the recorder (first rule, always True) notes every graph
    the verifier is shown"""
    k = v[0]
    custom = {
        'VAll': [],
        'VMinSize': [lambda g: g.length >= v[1]] if k == 'VMinSize' else None,
        'VRootNot': [lambda g: g.nodes[0].content['name'] != types[v[1]] if v[1] < len(types) else True]
        if k == 'VRootNot' else None,
        'VMinDepth': [lambda g: g.depth >= v[1]] if k == 'VMinDepth' else None,
        'VNever': [lambda g: False],
    }[k]
    base = list(DEFAULT_DAG_RULES) if k in ('VAll', 'VMinSize', 'VMinDepth') else []
    rules = base + custom
    if recorder is not None:
        rules = [recorder] + rules
    return rules


class PartialNodeFactory(DefaultOptNodeFactory):
    """a node factory that sometimes has no node to offer (get_node() -> None); notes every answer"""

    def __init__(self, types, p_none):
        super().__init__(types)
        self.types = list(types)
        self.p_none = p_none
        self.log = []

    def get_node(self, **kwargs):
        if self.p_none and pyrandom.random() < self.p_none:
            self.log.append(None)
            return None
        node = super().get_node(**kwargs)
        self.log.append(self.types.index(node.content['name']))
        return node


def explain_attempt(tree, seg, req_md, md, mn, mx):
    """choices (Factory.v encoding for a partial factory: draw 0 = None, k+1 = type k) that make
    the model's `attempt` consume exactly the get_node answers `seg` and build `tree`; None when
    there is no explanation.  Backtracking over arity draws and growth coins."""
    if seg[0] is None:
        return [0] if tree is None and len(seg) == 1 else None
    if tree is None or tree[0] != seg[0]:
        return None
    if req_md <= 1:
        return [tree[0] + 1] if len(seg) == 1 and not tree[1] else None

    def grow(children, h, pos):
        for n in range(max(len(children), mn), mx + 1):
            for ch, p in slots(children, 0, n, h, pos):
                yield [n - mn] + ch, p

    def slots(children, ci, remaining, h, pos):
        if remaining == 0:
            if ci == len(children):
                yield [], pos
            return
        if pos >= len(seg):
            return
        e = seg[pos]
        if e is None:
            for ch, p in slots(children, ci, remaining - 1, h, pos + 1):
                yield [0] + ch, p
            return
        if ci >= len(children) or children[ci][0] != e:
            return
        child = children[ci]
        may = not (md - 1 <= h + 1)
        if not may:
            if not child[1]:
                for ch, p in slots(children, ci + 1, remaining - 1, h, pos + 1):
                    yield [e + 1] + ch, p
            return
        if not child[1]:
            for ch, p in slots(children, ci + 1, remaining - 1, h, pos + 1):
                yield [e + 1, 0] + ch, p
        for gc, p1 in grow(child[1], h + 1, pos + 1):
            for ch, p2 in slots(children, ci + 1, remaining - 1, h, p1):
                yield [e + 1, 1] + gc + ch, p2
    for ch, p in grow(tree[1], 0, 1):
        if p == len(seg):
            return [tree[0] + 1] + ch
    return None


def observe_factory(case):
    md, mn, mx, arg, nt, v, seed = (case[k] for k in ('md', 'mn', 'mx', 'arg', 'nt', 'v', 'seed'))
    p_none = case.get('p_none', 0)
    types = TYPES[:nt]
    nf = PartialNodeFactory(types, p_none)
    seen = []           # (tree shown to the verifier, number of get_node answers so far)
    state = {'on': True}

    def recorder(g):
        if state['on']:
            seen.append((to_tree(g, types), len(nf.log)))
        return True
    verifier = GraphVerifier(make_rules(v, types, recorder))
    req = GraphRequirements(max_depth=md, min_arity=mn, max_arity=mx)
    pyrandom.seed(seed)
    try:
        g = random_graph(verifier, nf, req, arg)
    except ValueError:
        g = None
    state['on'] = False
    # attempts in order: a None answer at the start of an attempt is an attempt of its own
    attempts, choices, pos, ok = [], [], 0, True
    eff = arg if arg else md
    for tree, end in seen:
        while pos < end and nf.log[pos] is None:
            attempts.append(None)
            choices.append([0])
            pos += 1
        attempts.append(tree)
        if p_none:
            ch = explain_attempt(tree, nf.log[pos:end], eff, eff, mn, mx)
            ok = ok and ch is not None
            choices.append(ch or [])
        pos = end
    while pos < len(nf.log) and nf.log[pos] is None:
        attempts.append(None)
        choices.append([0])
        pos += 1
    o = {'attempts': attempts, 'choices': choices if p_none else [], 'explained': (not p_none) or (ok and (pos == len(nf.log) or mn > mx)),
         'result': None, 'accepted': False, 'depth': 0, 'nodes': []}
    if g is not None:
        o.update(result=to_tree(g, types), accepted=verifier(g) is True, depth=g.depth,
                 nodes=[types.index(n.content['name']) for n in g.nodes])
    return o


def c_fobs(o):
    return '(mkFObs %s %s %s %s %s %s)' % (
        c_list([c_opt(t, c_tree, 'tree') for t in o['attempts']], '(option tree)'),
        c_list([c_list([c_nat(x) for x in ch], 'nat') for ch in o['choices']], '(list nat)'),
        c_opt(o['result'], c_tree, 'tree'), c_bool(o['accepted']),
        c_nat(max(0, o['depth'])), c_list([c_nat(x) for x in o['nodes']], 'nat'))


def c_factory_case(case, o):
    return '(%s, %s, %s, %s, %s, %s)' % (c_vkind(case['v']), c_req(case['md'], case['mn'], case['mx']),
                                         c_opt(case['arg'], c_nat, 'nat'), c_bool(bool(case.get('p_none'))),
                                         c_nat(case['nt']), c_fobs(o))


def low_arity_nodes(t, mn):
    return (1 if t[1] and len(t[1]) < mn else 0) + sum(low_arity_nodes(k, mn) for k in t[1])


FN_F = 'fun c => match c with (v, rq, arg, pa, nt, o) => [f_agree v rq arg pa nt o; f_holds rq arg pa o] end'


def eval_factory(ctx, group, cases_in, canary=False):
    cases, meta = [], []
    for case in cases_in:
        o = observe_factory(case)
        cases.append(c_factory_case(case, o))
        meta.append((case, o))
    n_can = 0
    if canary:
        # hand-written observations of random_graph(max_depth=3, arity 2..2, 2 node types)
        case = {'md': 3, 'mn': 2, 'mx': 2, 'arg': None, 'nt': 2, 'v': ['VAll'], 'seed': 5}
        tree = [0, [[1, []], [0, [[1, []], [1, []]]]]]
        good = {'attempts': [tree], 'choices': [], 'explained': True, 'result': tree, 'accepted': True, 'depth': 3,
                'nodes': [0, 1, 0, 1, 1]}
        o = dict(good, depth=4)                          # deeper than max_depth
        cases.append(c_factory_case(case, o))
        bad = [0, [[1, []], [0, [[1, []], [1, []]]], [0, []]]]   # one parent too many at the root
        o = dict(good, attempts=[bad], result=bad, nodes=[0, 1, 0, 1, 1, 0])
        cases.append(c_factory_case(case, o))
        n_can = 2
        ctx.canaries += 2
    res = ctx.coq_cases(group, REQ_F, FN_F, cases, 2, shard=150)
    if n_can:
        for ag, ho in res[-n_can:]:
            if not ag and not ho:
                ctx.canaries_caught += 1
        res = res[:-n_can]
    low = sum(1 for case, o in meta if case.get('p_none') and o['result'] and low_arity_nodes(o['result'], case['mn']))
    if low:
        ctx.notes.append('%s: %d graphs produced with a PARTIAL node factory (get_node() may return None) contain a '
                         'node with fewer than min_arity parents; the arity lower bound is claimed for total node '
                         'factories only (see docs/C20.md)' % (group, low))
    for (case, o), (ag, ho) in zip(meta, res):
        c = dict(case, kind='factory')
        size = tree_nodes(o['result']) if o['result'] else 0
        if not o['explained']:
            ctx.disagree(group, c, 'no choice sequence of the model explains the node factory log of an attempt')
        ctx.count(group, key=tuple(sorted((k, repr(x)) for k, x in case.items())), nontrivial=size >= 2,
                  max_depth=case['md'], arity='%d-%d' % (case['mn'], case['mx']), verifier=case['v'][0],
                  node_factory='partial' if case.get('p_none') else 'total',
                  attempts=min(len(o['attempts']), 5) if len(o['attempts']) < 1000 else 1001,
                  outcome='graph' if o['result'] else 'ValueError', size=min(size, 40) // 5 * 5)
        if not ho:
            ctx.violate(group, c, 'random_graph returned a graph outside the contract (verifier / depth / arity) '
                                  'or raised before the attempt limit')
        if not ag:
            ctx.disagree(group, c, 'model and random_graph differ')
    return meta


def observe_population(case):
    md, mn, mx, nt, v, seed, ps = (case[k] for k in ('md', 'mn', 'mx', 'nt', 'v', 'seed', 'pop_size'))
    types = TYPES[:nt]
    nf = PartialNodeFactory(types, case.get('p_none', 0))
    generated = []
    raised = [False]

    class Factory:
        """records what the real factory hands to the generator"""

        def __init__(self, verifier):
            self.real = RandomGrowthGraphFactory(verifier, nf)

        def __call__(self, requirements, max_depth=None):
            try:
                g = self.real(requirements, max_depth)
            except ValueError:
                raised[0] = True
                raise
            generated.append(to_tree(g, types))
            return g
    gp = GraphGenerationParams(adapter=make_adapter(case.get('adapter')), rules_for_constraint=make_rules(v, types),
                               node_factory=nf)
    # 'gen_v': the factory verifies with another rule set than the population generator, so that
    # the generator's own verifier call matters
    gen_verifier = GraphVerifier(make_rules(case['gen_v'], types)) if case.get('gen_v') else gp.verifier
    gp.random_graph_factory = Factory(gen_verifier)
    req = GraphRequirements(max_depth=md, min_arity=mn, max_arity=mx)
    pyrandom.seed(seed)
    try:
        pop = InitialPopulationGenerator(ps, gp, req)()
    except ValueError:
        pop = None
    if pop is None:
        return {'generated': generated, 'raised': raised[0], 'result': None, 'accepted': [], 'pairs': [], 'depths': []}
    pop = list(pop)
    return {'generated': generated, 'raised': raised[0], 'result': [to_tree(g, types) for g in pop],
            'accepted': [gp.verifier(g) is True for g in pop],
            'pairs': [bool(pop[i] == pop[j]) for i in range(len(pop)) for j in range(i + 1, len(pop))],
            'depths': [g.depth for g in pop]}


def c_pobs(o):
    res = None if o['result'] is None else c_list([c_tree(t) for t in o['result']], 'tree')
    return '(mkPObs %s %s %s %s %s %s)' % (
        c_list([c_tree(t) for t in o['generated']], 'tree'), c_bool(o['raised']),
        '(@None (list tree))' if res is None else '(Some %s)' % res,
        c_list([c_bool(b) for b in o['accepted']], 'bool'), c_list([c_bool(b) for b in o['pairs']], 'bool'),
        c_list([c_nat(max(0, d)) for d in o['depths']], 'nat'))


FN_P = 'fun c => match c with (v, rq, pa, ps, o) => [p_agree v ps o; p_holds rq pa ps o] end'


def c_population_case(case, o):
    return '(%s, %s, %s, %s, %s)' % (c_vkind(case['v']), c_req(case['md'], case['mn'], case['mx']),
                                     c_bool(bool(case.get('p_none'))), c_nat(case['pop_size']), c_pobs(o))


def eval_population(ctx, group, cases_in, canary=False):
    cases, meta = [], []
    for case in cases_in:
        o = observe_population(case)
        cases.append(c_population_case(case, o))
        meta.append((case, o))
    n_can = 0
    if canary:
        # hand-written observation: a duplicate inside the returned population
        case = {'md': 3, 'mn': 1, 'mx': 2, 'nt': 3, 'v': ['VAll'], 'seed': 3, 'pop_size': 3}
        t0, t1 = [0, [[1, []]]], [2, []]
        o = {'generated': [t0, t1, t0], 'raised': False, 'result': [t0, t1, t0], 'accepted': [True] * 3,
             'pairs': [False, True, False], 'depths': [2, 1, 2]}
        cases.append(c_population_case(case, o))
        n_can = 1
        ctx.canaries += 1
    res = ctx.coq_cases(group, REQ_F, FN_P, cases, 2, shard=60)
    if n_can:
        for ag, ho in res[-n_can:]:
            if not ag and not ho:
                ctx.canaries_caught += 1
        res = res[:-n_can]
    for (case, o), (ag, ho) in zip(meta, res):
        c = dict(case, kind='population')
        n = len(o['result']) if o['result'] is not None else -1
        ctx.count(group, key=tuple(sorted((k, repr(x)) for k, x in case.items())), nontrivial=n >= 2,
                  pop_size=case['pop_size'], returned=n, verifier=case['v'][0],
                  short=(n >= 0 and n < case['pop_size']), generated=min(len(o['generated']), 1000) // 10 * 10)
        if not ho:
            ctx.violate(group, c, 'initial population outside the contract (verified / distinct / size / bounds)')
        if not ag:
            ctx.disagree(group, c, 'model and InitialPopulationGenerator differ')
    return meta


# ---- populations from a scripted graph stream (custom generation function) ---------------------
def _n(name, *parents):
    from golem.core.optimisers.graph import OptNode
    return OptNode(content={'name': name}, nodes_from=list(parents))


def _templates():
    """small graph recipes -> list of nodes handed to OptGraph(...) (listing order matters only for
    graph.nodes): single nodes, chains, forks with identical / different sinks (several sinks fed by
    one parent), different multiplicities of one sink, diamonds, reversed listings, and
    disconnected graphs (rejected by DEFAULT_DAG_RULES)"""
    def chain(*names):
        def mk():
            node = None
            for nm in names:
                node = _n(nm, *([node] if node else []))
            return [node]
        return mk

    def fork(parent, *sinks, rev=False):
        def mk():
            par = _n(parent)
            out = [_n(nm, par) for nm in sinks]
            return out[::-1] if rev else out
        return mk

    def diamond(top, l, r_, sink):
        def mk():
            t = _n(top)
            return [_n(sink, _n(l, t), _n(r_, t))]
        return mk

    def unfolded_diamond(top, l, r_, sink, swap=False):
        # the tree twin of diamond(...): every path gets its own copy of the top node, so the descriptive
        # id is the same while the node count differs; swap = parents listed in the other order
        def mk():
            ps = [_n(l, _n(top)), _n(r_, _n(top))]
            return [_n(sink, *(ps[::-1] if swap else ps))]
        return mk

    def shared_grandparent():
        # c <- (b <- a, b <- a) with ONE shared a ...
        top = _n('a')
        return [_n('c', _n('b', top), _n('b', top))]

    def unshared_grandparent():
        # ... and its twin with two copies of a: UniqueList keeps both b's (distinct objects)
        return [_n('c', _n('b', _n('a')), _n('b', _n('a')))]

    def two_level_fork():
        par = _n('a')
        mid = _n('b', par)
        return [_n('c', mid), _n('c', mid), _n('c', par)]

    def disconnected():
        return [_n('a'), _n('b')]
    return [chain('a'), chain('b'), chain('a', 'b'), chain('a', 'b'), chain('b', 'a'), chain('a', 'b', 'c'),
            fork('a', 'b'), fork('a', 'b', 'b'), fork('a', 'b', 'b', 'b'), fork('a', 'b', 'c'),
            fork('a', 'c', 'b'), fork('a', 'b', 'c', rev=True), fork('a', 'b', 'b', 'c'), fork('a', 'c', 'b', 'b', 'c'),
            diamond('a', 'b', 'c', 'a'), diamond('a', 'c', 'b', 'a'), diamond('a', 'b', 'b', 'a'),
            unfolded_diamond('a', 'b', 'c', 'a'), unfolded_diamond('a', 'b', 'c', 'a', swap=True),
            unfolded_diamond('a', 'b', 'b', 'a'), shared_grandparent, unshared_grandparent,
            two_level_fork, disconnected]


def observe_scripted(case):
    from golem.core.optimisers.graph import OptGraph
    ps, seed, length = case['pop_size'], case['seed'], case['length']
    rr = pyrandom.Random(seed)
    temps = _templates()
    script = [rr.randrange(len(temps)) for _ in range(length)]
    # 'domain_eq': the generation function returns DOMAIN graphs of a user class that defines its own __eq__,
    # the generator is configured with DirectAdapter(that class)
    dom_cls = DOMAIN_EQ.get(case.get('domain_eq'))
    adapter = DirectAdapter(dom_cls, DomNode) if dom_cls else make_adapter(case.get('adapter'))
    gp = GraphGenerationParams(adapter=adapter, rules_for_constraint=list(DEFAULT_DAG_RULES),
                               available_node_types=TYPES)
    generated = []
    calls = [0]

    def sinks_of(g):
        return [to_tree_from(n) for n in g.root_nodes()]

    def to_tree_from(n, depth=0):
        assert depth < 32
        return [TYPES.index(n.content['name']), [to_tree_from(q, depth + 1) for q in n.nodes_from]]

    def generation_function():
        g = OptGraph(temps[script[calls[0] % length]]())      # fresh objects, fresh uids every call
        if dom_cls:
            g = adapter.restore(g)
            assert type(g) is dom_cls
        calls[0] += 1
        generated.append([gp.verifier(g) is True, sinks_of(g)])
        return g
    gen = InitialPopulationGenerator(ps, gp, GraphRequirements()).with_custom_generation_function(generation_function)
    out = []
    for _ in range(case.get('calls', 1)):         # repeated calls of one generator object continue the stream
        del generated[:]
        pop = list(gen())
        out.append({'generated': list(generated), 'result': [sinks_of(g) for g in pop],
                    'accepted': [gp.verifier(g) is True for g in pop],
                    'pairs': [bool(pop[i] == pop[j]) for i in range(len(pop)) for j in range(i + 1, len(pop))]})
    return out


def c_forest(f):
    return c_list([c_tree(t) for t in f], 'tree')


def c_sobs(o):
    return '(mkSObs %s %s %s %s)' % (
        c_list(['(%s, %s)' % (c_bool(a), c_forest(f)) for a, f in o['generated']], 'sgraph'),
        c_list([c_forest(f) for f in o['result']], 'forest'),
        c_list([c_bool(b) for b in o['accepted']], 'bool'), c_list([c_bool(b) for b in o['pairs']], 'bool'))


FN_S = 'fun c => match c with (ps, o) => [s_agree ps o; s_holds ps o] end'


def eval_scripted(ctx, group, cases_in, canary=False):
    cases, meta = [], []
    for case in cases_in:
        for o in observe_scripted(case):
            cases.append('(%s, %s)' % (c_nat(case['pop_size']), c_sobs(o)))
            meta.append((case, o))
    n_can = 0
    if canary:
        # hand-written: chain a->b and fork a->b, a->b' are == (same set of sink ids) yet both returned
        chain, fork = [[1, [[0, []]]]], [[1, [[0, []]]], [1, [[0, []]]]]
        o = {'generated': [[True, chain], [True, fork]], 'result': [chain, fork], 'accepted': [True, True],
             'pairs': [True]}
        cases.append('(%s, %s)' % (c_nat(2), c_sobs(o)))
        n_can = 1
        ctx.canaries += 1
    res = ctx.coq_cases(group, REQ_F, FN_S, cases, 2, shard=40)
    if n_can:
        for ag, ho in res[-n_can:]:
            if not ag and not ho:
                ctx.canaries_caught += 1
        res = res[:-n_can]
    for (case, o), (ag, ho) in zip(meta, res):
        c = dict(case, kind='scripted')
        n = len(o['result'])
        multi = sum(1 for f in o['result'] if len(f) > 1)
        ctx.count(group, key=tuple(sorted(case.items())) + (len(o['generated']),), nontrivial=n >= 2,
                  pop_size=case['pop_size'], returned=n, adapter=case.get('adapter', 'none'),
                  domain_eq=case.get('domain_eq', 'no'),
                  multi_sink_members=min(multi, 4), generated=min(len(o['generated']), 1000) // 10 * 10,
                  short=n < case['pop_size'])
        if not ho:
            ctx.violate(group, c, 'initial population from a custom generation function contains equal graphs, '
                                  'unverified graphs or too many graphs')
        if not ag:
            ctx.disagree(group, c, 'model and InitialPopulationGenerator differ (scripted graph stream)')
    return meta


# ---- populations from given initial graphs, under every adapter ---------------------------------
def observe_initial(case):
    kind, ps, seed, n_given, ncalls = (case[k] for k in ('adapter', 'pop_size', 'seed', 'n_given', 'calls'))
    rr = pyrandom.Random(seed)
    temps = _templates()

    def to_tree_from(n, depth=0):
        assert depth < 32
        return [TYPES.index(n.content['name']), [to_tree_from(q, depth + 1) for q in n.nodes_from]]

    def sinks_of(g):
        return [to_tree_from(n) for n in g.root_nodes()]
    adapter = make_adapter(kind)
    gp = GraphGenerationParams(adapter=adapter, rules_for_constraint=list(DEFAULT_DAG_RULES), available_node_types=TYPES)
    opt_graphs = [OptGraph(temps[rr.randrange(len(temps))]()) for _ in range(n_given)]
    given = [sinks_of(g) for g in opt_graphs]
    # the user hands over DOMAIN graphs: the adapter's image of the optimisation graphs
    domain = [gp.adapter.restore(g) for g in opt_graphs]
    gen = InitialPopulationGenerator(ps, gp, GraphRequirements()).with_initial_graphs(domain)
    results = []
    for _ in range(ncalls):
        pop = list(gen())
        assert all(isinstance(g, OptGraph) for g in pop), [type(g) for g in pop]
        results.append([sinks_of(g) for g in pop])
    return {'given': given, 'results': results}


FN_E = 'fun c => match c with (ps, o) => [e_agree ps o; e_holds ps o] end'


def eval_initial(ctx, group, cases_in, canary=False):
    cases, meta = [], []

    def c_case(ps, o):
        return '(%s, (mkEObs %s %s))' % (c_nat(ps), c_list([c_forest(f) for f in o['given']], 'forest'),
                                        c_list([c_list([c_forest(f) for f in r], 'forest') for r in o['results']],
                                               '(list forest)'))
    for case in cases_in:
        o = observe_initial(case)
        cases.append(c_case(case['pop_size'], o))
        meta.append((case, o))
    n_can = 0
    if canary:
        g = [[0, []]]
        cases.append(c_case(1, {'given': [g, g], 'results': [[g, g], [g]]}))     # first call returns too many
        n_can = 1
        ctx.canaries += 1
    res = ctx.coq_cases(group, REQ_F, FN_E, cases, 2, shard=100)
    if n_can:
        for ag, ho in res[-n_can:]:
            if not ag and not ho:
                ctx.canaries_caught += 1
        res = res[:-n_can]
    for (case, o), (ag, ho) in zip(meta, res):
        c = dict(case, kind='initial')
        rel = 'more' if case['n_given'] > case['pop_size'] else ('equal' if case['n_given'] == case['pop_size'] else 'fewer')
        ctx.count(group, key=tuple(sorted(case.items())), nontrivial=case['n_given'] >= 2, adapter=case['adapter'],
                  given_vs_pop_size=rel, calls=case['calls'])
        if not ho:
            ctx.violate(group, c, 'InitialPopulationGenerator with initial graphs returned more graphs than requested')
        if not ag:
            ctx.disagree(group, c, 'model and InitialPopulationGenerator differ (given initial graphs)')
    return meta


def pick_verifier(r, md, nt):
    k = r.choice(['VAll', 'VAll', 'VMinSize', 'VRootNot', 'VMinDepth'])
    if k == 'VMinSize':
        return [k, r.choice([1, 2, 3, 5])] if md > 1 else [k, 1]
    if k == 'VRootNot':
        return [k, r.randrange(nt + 1)] if nt > 1 else [k, 1]
    if k == 'VMinDepth':
        return [k, r.randint(1, min(md, 3))]
    return [k]


def run_generators(ctx):
    r = ctx.rng
    grid = [(md, mn, mx, nt) for md in range(1, 7) for mn in range(1, 5) for mx in range(mn, 5) for nt in (1, 2, 3)]
    cases = []
    per = ctx.pick(10, 120)
    for md, mn, mx, nt in grid:
        for i in range(per):
            v = ['VAll'] if i == 0 else pick_verifier(r, md, nt)
            # explicit overrides below / at / above requirements.max_depth; 0 and None fall back
            arg = None if i % 3 else r.choice([None, 0, 1, 2, md, max(1, md - 1), md + 1, r.randint(1, 6)])
            case = {'md': md, 'mn': mn, 'mx': mx, 'arg': arg, 'nt': nt, 'v': v, 'seed': r.randrange(10 ** 6)}
            if i % 5 == 3:
                case['p_none'] = r.choice([0.15, 0.3, 0.5])     # a node factory that sometimes returns None
            cases.append(case)
    # attempt limit, empty arity range, explicit overrides incl. 1 below requirements.max_depth and the falsy 0
    for md, mn, mx in [(1, 1, 1), (2, 1, 2), (2, 2, 2)]:
        cases.append({'md': md, 'mn': mn, 'mx': mx, 'arg': None, 'nt': 2, 'v': ['VNever'], 'seed': r.randrange(10 ** 6)})
    cases.append({'md': 2, 'mn': 1, 'mx': 1, 'arg': None, 'nt': 1, 'v': ['VRootNot', 0], 'seed': 1})
    for md, mn, mx in [(3, 3, 2), (2, 4, 1), (1, 2, 1)]:
        cases.append({'md': md, 'mn': mn, 'mx': mx, 'arg': None, 'nt': 2, 'v': ['VAll'], 'seed': r.randrange(10 ** 6)})
    for md, arg in [(3, 1), (4, 0), (2, 1), (5, 1), (6, 2), (1, 4), (2, 6)]:
        cases.append({'md': md, 'mn': 1, 'mx': 3, 'arg': arg, 'nt': 2, 'v': ['VAll'], 'seed': r.randrange(10 ** 6)})
    meta = eval_factory(ctx, 'random-graph', cases, canary=True)
    ctx.set_exhaustive('random-graph', False)
    big = [m for m in meta if m[1]['result'] and tree_nodes(m[1]['result']) >= 4]
    for case, o in big[:2]:
        ctx.sample({'kind': 'factory', 'case': case, 'attempts': len(o['attempts']), 'returned_tree': o['result'],
                    'depth': o['depth']})
    # initial populations
    cases = []
    for _ in range(ctx.budget(150, 2500)):
        md, mn, mx, nt = r.choice(grid)
        cases.append({'md': md, 'mn': mn, 'mx': mx, 'nt': nt, 'v': pick_verifier(r, md, nt),
                      'seed': r.randrange(10 ** 6), 'pop_size': r.choice([0, 1, 2, 3, 3, 5, 8, 12])})
        if r.random() < 0.2:
            cases[-1]['p_none'] = 0.3
        if r.random() < 0.3:
            cases[-1]['gen_v'] = ['VAll']
        if r.random() < 0.4:     # GraphGenerationParams with a non-identity adapter (custom rules see domain graphs)
            cases[-1]['adapter'] = r.choice(['identity', 'direct', 'direct_dom'] +
                                            (['dumb_nx'] if cases[-1]['v'][0] == 'VAll' and 'gen_v' not in cases[-1] else []))
    # more graphs requested than exist: the attempt limit ends the loop with a short population
    for nt, ps in [(1, 2), (2, 3), (3, 5)][:ctx.pick(2, 3)]:
        cases.append({'md': 1, 'mn': 1, 'mx': 1, 'nt': nt, 'v': ['VAll'], 'seed': r.randrange(10 ** 6), 'pop_size': ps})
    cases.append({'md': 2, 'mn': 1, 'mx': 1, 'nt': 1, 'v': ['VNever'], 'seed': 7, 'pop_size': 2})
    meta = eval_population(ctx, 'initial-population', cases, canary=True)
    ctx.set_exhaustive('initial-population', False)
    # custom generation function: a scripted stream of small graphs incl. pairs that are == without
    # being the same object (fresh uids, other listing order, other multiplicity of identical sinks)
    scripted = []
    for _ in range(ctx.budget(120, 1500)):
        length = r.choice([4, 8, 16, 30])
        scripted.append({'pop_size': r.randint(1, max(1, min(6, length // 3))), 'seed': r.randrange(10 ** 6),
                         'length': length, 'adapter': r.choice(ADAPTERS), 'calls': r.choice([1, 1, 2])})
        if r.random() < 0.3:
            scripted[-1]['domain_eq'] = r.choice(['strict', 'tagged'])
    for ps, length in [(12, 30), (4, 4), (8, 16)]:                    # more requested than distinct graphs exist
        scripted.append({'pop_size': ps, 'seed': r.randrange(10 ** 6), 'length': length})
    eval_scripted(ctx, 'population-scripted', scripted, canary=True)
    ctx.set_exhaustive('population-scripted', False)
    # with_initial_graphs: more / equal / fewer graphs than pop_size, every adapter, one to three calls
    initial = [{'adapter': a, 'pop_size': ps, 'n_given': n, 'calls': k, 'seed': r.randrange(10 ** 6)}
               for a in ADAPTERS for ps in (0, 1, 2, 4) for n in (1, 2, 3, 4, 6) for k in (1, 3)]
    for _ in range(ctx.budget(0, 600)):
        initial.append({'adapter': r.choice(ADAPTERS), 'pop_size': r.randrange(0, 7), 'n_given': r.randrange(1, 9),
                        'calls': r.choice([1, 2, 3]), 'seed': r.randrange(10 ** 6)})
    eval_initial(ctx, 'population-initial-graphs', initial, canary=True)
    ctx.set_exhaustive('population-initial-graphs', False)
    for case, o in [m for m in meta if m[1]['result'] and len(m[1]['result']) >= 3][:1]:
        ctx.sample({'kind': 'population', 'case': case, 'generated': len(o['generated']),
                    'returned': o['result'][:3]})


def run(ctx):
    ctx.rule = ('builder: call sequences over k real OptGraphBuilder objects (exhaustive: length 1-2 over the whole '
                'alphabet of 34/40 calls, length 3 over its first 13/24, thorough length 4 over its first 10, each '
                'followed by two builds of builder 0 and of the first merged builder; random sequences of length 4-13 '
                'over 1-3 builders; alphabet: every method, out-of-range and negative indices, None / empty / '
                '(None, params) operations, merges incl. self-merge), observed after every call; distinct = distinct '
                'call sequence; non-trivial = some builder reaches >= 2 nodes.  generators: one random_graph call per '
                'case over max_depth 1..6 x min<=max arity 1..4 x 1..3 node types x verifier rule sets x override '
                'argument x total/partial node factory x seed (plus attempt-limit and empty-arity-range cases); '
                'non-trivial = a graph with >= 2 nodes was returned.  populations: one InitialPopulationGenerator call '
                'per case (pop_size 0..12, same grid); non-trivial = at least 2 graphs returned.')
    ctx.trusted_extra = [
        'copy.deepcopy modelled as a fresh isomorphic sub-heap (uids kept); uuid4 as an injective naming; '
        'LinkedGraph.sort_nodes not modelled (cannot change the set of root nodes); graph adapters are outside the model: '
        'adapter-configured builders / generators are compared with the same adapter-free model',
        'random.randint / random.choices / node_factory.get_node are choice oracles: choices are inferred from the '
        'observed attempt trees inside Coq (total node factory) or found by backtracking over the node factory log in '
        'the harness (partial node factory); distance_to_root_level modelled as recursion depth',
        'the arity lower bound is claimed and checked for total node factories only; depth bound = the effective '
        'max_depth (explicit override argument if truthy, else requirements.max_depth)']
    run_builder(ctx)
    run_generators(ctx)


def replay(ctx, payload):
    """payload: a replay file written by run_check (violation / first_disagreement with a case) or a
    corpus file {"cases": [case, ...]}"""
    if isinstance(payload, dict) and 'cases' in payload:
        cases = payload['cases']
    else:
        v = payload.get('violation') or payload.get('first_disagreement') or payload
        case = v.get('case') if isinstance(v, dict) else None
        cases = [case] if case else []
    strip = lambda c: {k: x for k, x in c.items() if k not in ('kind', 'name')}
    b = [(c['k'], c['calls'], c.get('adapter', 'none')) for c in cases if c.get('kind') == 'builder']
    f = [strip(c) for c in cases if c.get('kind') == 'factory']
    p = [strip(c) for c in cases if c.get('kind') == 'population']
    sc = [strip(c) for c in cases if c.get('kind') == 'scripted']
    ini = [strip(c) for c in cases if c.get('kind') == 'initial']
    if ini:
        eval_initial(ctx, 'replay', ini)
    if sc:
        eval_scripted(ctx, 'replay', sc)
    for adapter in ADAPTERS:
        items = [(k, calls) for k, calls, a in b if a == adapter]
        if items:
            eval_builder(ctx, 'replay', items, adapter=adapter)
    if f:
        eval_factory(ctx, 'replay', f)
    if p:
        eval_population(ctx, 'replay', p)
