"""Shared machinery of the GOLEM verification checks (see /verif/DESIGN.md, sections 2-4).

A check = proof stage (Coq theorems re-checked, axioms collected) + corpus + correspondence
stage (implementation in /repo vs the executable Gallina model, evaluated by coqc with
vm_compute on generated case files) + decision + evidence.

Drivers (harness/cNN.py) expose  run(ctx)  and use the helpers of class Ctx below.
"""
import concurrent.futures
import hashlib
import json
import os
import random
import re
import shutil
import subprocess
import sys
import time
import traceback

VERIF = os.path.dirname(os.path.dirname(os.path.abspath(__file__)))
COQ = os.path.join(VERIF, 'coq')
THEORIES = os.path.join(COQ, 'theories')
LOGICAL = 'GolemV'
NCPU = min(16, os.cpu_count() or 4)

FORBIDDEN = re.compile(
    r'\bAdmitted\b|\badmit\b|\bAxiom\b|\bAxioms\b|\bParameter\b|\bParameters\b|\bConjecture\b|'
    r'Unset\s+Guard|bypass_check|type-in-type|impredicative-set|\bAdmit\s+Obligations\b|'
    r'Unset\s+Positivity|Unset\s+Universe|\bhammer\b')


# ----------------------------------------------------------------------------------------
# Python value -> Coq term printers (total over a tiny grammar)
# ----------------------------------------------------------------------------------------
def c_bool(b):
    return 'true' if b else 'false'


def c_nat(n):
    assert isinstance(n, int) and 0 <= n < 100000, n
    return '%d%%nat' % n


def c_Z(n):
    assert isinstance(n, int)
    return '(%d)%%Z' % n


def c_N(n):
    assert isinstance(n, int) and n >= 0
    return '%d%%N' % n


def c_Q(x):
    """Exact rational of a python float / int / Fraction."""
    from fractions import Fraction
    fr = Fraction(x)
    return '((%d)%%Z # %d)' % (fr.numerator, fr.denominator)


def c_str(s):
    assert isinstance(s, str)
    for ch in s:
        assert 32 <= ord(ch) < 127, 'non printable-ascii character in %r' % s
    return '"' + s.replace('"', '""') + '"%string'


def c_list(items, ty=None):
    items = list(items)
    if not items and ty:
        return '(@nil (%s))' % ty
    return '[' + '; '.join(items) + ']'


def c_opt(x, pr, ty=None):
    if x is None:
        return '(@None (%s))' % ty if ty else 'None'
    return '(Some %s)' % pr(x)


def c_pair(a, b):
    return '(%s, %s)' % (a, b)


# ----------------------------------------------------------------------------------------
# running coqc
# ----------------------------------------------------------------------------------------
def _run(cmd, timeout, cwd=None):
    try:
        p = subprocess.run(cmd, cwd=cwd, stdout=subprocess.PIPE, stderr=subprocess.STDOUT,
                           timeout=timeout, text=True)
        return p.returncode, p.stdout
    except subprocess.TimeoutExpired as ex:
        return 124, (ex.stdout or '') + '\n[timeout after %ss]' % timeout


def coqc_file(path, timeout=600):
    """Compile one .v file against the project's theories; returns (rc, output)."""
    out = os.path.splitext(path)[0] + '.vo'
    rc, txt = _run(['timeout', str(timeout), 'coqc', '-q', '-Q', THEORIES, LOGICAL, '-o', out, path],
                   timeout + 30)
    return rc, txt


def ensure_built(targets, timeout=1500):
    """make the given .vo targets (relative to coq/); generates the Makefile when missing."""
    lock = os.path.join(COQ, '.build.lock')
    # the Makefile lists every .v file: regenerate it so that new files are known
    rc, txt = _run(['flock', lock, os.path.join(VERIF, 'bin', 'mkcoqproject')], 300)
    if rc != 0:
        return rc, txt
    cmd = ['flock', lock, 'timeout', str(timeout), 'make', '-C', COQ, '-j%d' % NCPU] + list(targets)
    return _run(cmd, timeout + 600)


class CoqEvalError(Exception):
    pass


_TOKEN = re.compile(r'\b(true|false)\b')


def _eval_shard(args):
    path, timeout = args
    rc, txt = coqc_file(path, timeout)
    return path, rc, txt


# ----------------------------------------------------------------------------------------
# the context handed to drivers
# ----------------------------------------------------------------------------------------
class Ctx:
    def __init__(self, pid, tier, seed):
        self.pid = pid
        self.tier = tier
        self.seed = seed
        self.scale = 1            # >1 during escalated search
        self.rng = random.Random(seed)
        self.t0 = time.time()
        self.groups = {}          # group -> stats
        self.disagreements = []   # model != implementation
        self.violations = []      # property (holds_b) false on observed implementation behaviour
        self.errors = []          # harness could not drive the implementation
        self.samples = []
        self.notes = []
        self.case_dir = os.path.join(COQ, 'cases', '%s_%s_%d' % (pid, tier, os.getpid()))
        self._shard_no = 0
        self.coq_s = 0.0
        self.canaries = 0
        self.canaries_caught = 0

    # -- tier helpers -------------------------------------------------------------------
    def pick(self, quick, thorough):
        base = quick if self.tier == 'quick' else thorough
        return base

    def budget(self, quick, thorough):
        return int(self.pick(quick, thorough) * self.scale)

    # -- bookkeeping ---------------------------------------------------------------------
    def group(self, name):
        g = self.groups.setdefault(name, {'evaluations': 0, 'nontrivial_keys': set(),
                                          'distribution': {}, 'exhaustive': None})
        return g

    def count(self, group, key=None, nontrivial=False, **dist):
        """Register one evaluated case. key: canonical hashable description (for distinct
        counting); nontrivial: per the driver's rule; dist: categorical facts to tally."""
        g = self.group(group)
        g['evaluations'] += 1
        if nontrivial and key is not None:
            g['nontrivial_keys'].add(hashlib.sha1(repr(key).encode()).hexdigest()[:16])
        for k, v in dist.items():
            d = g['distribution'].setdefault(k, {})
            d[str(v)] = d.get(str(v), 0) + 1

    def set_exhaustive(self, group, flag):
        self.group(group)['exhaustive'] = bool(flag)

    def sample(self, obj):
        if len(self.samples) < 6:
            self.samples.append(obj)

    def disagree(self, group, case, detail=''):
        self.disagreements.append({'group': group, 'case': case, 'detail': detail})

    def violate(self, group, case, what, finding_key=None):
        self.violations.append({'group': group, 'case': case, 'what': what, 'finding_key': finding_key})

    def error(self, group, what):
        self.errors.append({'group': group, 'what': what})

    # -- Coq evaluation ------------------------------------------------------------------
    def coq_cases(self, group, requires, fn, cases, k, shard=400, case_ty=None, timeout=900,
                  preamble=''):
        """Evaluate  fn : case -> list bool  (k booleans per case) on Coq terms `cases`.
        Returns a list of k-tuples of python bools, one per case.  Raises CoqEvalError when a
        shard does not compile or prints an unexpected number of booleans."""
        if not cases:
            return []
        os.makedirs(self.case_dir, exist_ok=True)
        files = []
        bounds = []
        for i in range(0, len(cases), shard):
            chunk = cases[i:i + shard]
            self._shard_no += 1
            path = os.path.join(self.case_dir, 'cases_%s_%d.v' % (re.sub(r'\W', '_', group), self._shard_no))
            with open(path, 'w') as f:
                f.write('From Coq Require Import List String ZArith NArith QArith Bool.\nImport ListNotations.\n')
                for r in requires:
                    f.write('From %s Require Import %s.\n' % (LOGICAL, r))
                f.write('Local Open Scope string_scope.\nLocal Open Scope list_scope.\n')
                f.write(preamble + '\n')
                ty = (' : list (%s)' % case_ty) if case_ty else ''
                f.write('Definition cs%s := [\n' % ty)
                f.write(';\n'.join(chunk))
                f.write('\n].\n')
                f.write('Eval vm_compute in (List.map (%s) cs).\n' % fn)
            files.append(path)
            bounds.append(len(chunk))
        t = time.time()
        results = {}
        with concurrent.futures.ThreadPoolExecutor(max_workers=NCPU) as ex:
            for path, rc, txt in ex.map(_eval_shard, [(p, timeout) for p in files]):
                results[path] = (rc, txt)
        stale = [p_ for p_ in files if results[p_][0] != 0 and ('inconsistent assumptions' in results[p_][1]
                                                                  or 'Cannot find a physical path' in results[p_][1]
                                                                  or 'bad version number' in results[p_][1])]
        if stale:
            # a compiled library was rebuilt (or removed) under the running check: re-make what the cases need, once
            ensure_built([os.path.join('theories', r.replace('.', '/') + '.vo') for r in requires])
            with concurrent.futures.ThreadPoolExecutor(max_workers=NCPU) as ex:
                for path, rc, txt in ex.map(_eval_shard, [(p_, timeout) for p_ in stale]):
                    results[path] = (rc, txt)
        self.coq_s += time.time() - t
        out = []
        for path, n in zip(files, bounds):
            rc, txt = results[path]
            if rc != 0:
                keep = os.path.join(VERIF, 'replays', os.path.basename(path))
                try:
                    shutil.copy(path, keep)
                except OSError:
                    pass
                raise CoqEvalError('coqc failed on %s (kept as %s): %s' % (path, keep, txt[-1500:]))
            body = txt.split('     = ', 1)[-1] if '     = ' in txt else txt
            body = body.rsplit('\n     : ', 1)[0]
            toks = [m == 'true' for m in _TOKEN.findall(body)]
            if len(toks) != n * k:
                raise CoqEvalError('expected %d booleans from %s, got %d: %s' % (n * k, path, len(toks), txt[-800:]))
            for j in range(n):
                out.append(tuple(toks[j * k:(j + 1) * k]))
        return out

    def coq_print(self, requires, term, timeout=300, preamble=''):
        """Evaluate one term with vm_compute and return Coq's printed answer (diagnostics)."""
        os.makedirs(self.case_dir, exist_ok=True)
        self._shard_no += 1
        path = os.path.join(self.case_dir, 'print_%d.v' % self._shard_no)
        with open(path, 'w') as f:
            f.write('From Coq Require Import List String ZArith NArith QArith Bool.\nImport ListNotations.\n')
            for r in requires:
                f.write('From %s Require Import %s.\n' % (LOGICAL, r))
            f.write('Local Open Scope string_scope.\nLocal Open Scope list_scope.\n' + preamble + '\n')
            f.write('Eval vm_compute in (%s).\n' % term)
        rc, txt = coqc_file(path, timeout)
        return txt.strip()

    def cleanup(self):
        shutil.rmtree(self.case_dir, ignore_errors=True)
        try:
            os.rmdir(os.path.join(COQ, 'cases'))
        except OSError:
            pass


# ----------------------------------------------------------------------------------------
# proof stage
# ----------------------------------------------------------------------------------------
def dep_closure(pid):
    """source files Properties/<pid>.v depends on (itself included), via coqdep -sort"""
    rc, txt = _run(['coqdep', '-Q', 'theories', LOGICAL, '-sort', os.path.join('theories', 'Properties', pid + '.v')],
                   120, cwd=COQ)
    files = [os.path.join(COQ, w) for w in txt.split() if w.endswith('.v') and w.startswith('theories')]
    return [f for f in files if os.path.exists(f)]


def forbidden_scan(pid):
    """Admitted / admit / Axiom / ... anywhere in the files the property's theorems depend on"""
    hits = []
    files = dep_closure(pid)
    if not files:
        return ['coqdep produced no dependency list for ' + pid]
    for p in files:
        with open(p, errors='replace') as f:
            for i, line in enumerate(f, 1):
                if FORBIDDEN.search(line):
                    hits.append('%s:%d: %s' % (os.path.relpath(p, VERIF), i, line.strip()[:120]))
    return hits


def property_files(pid):
    """Properties/<pid>.v first, then further statement files of the same property (Properties/<pid><Suffix>.v)"""
    d = os.path.join(THEORIES, 'Properties')
    extra = sorted(f[:-2] for f in os.listdir(d) if re.fullmatch(re.escape(pid) + r'[A-Z][A-Za-z]*\.v', f))
    return [pid] + extra


def proof_stage(pid):
    """Re-check every statement file of the property (Properties/<pid>.v, Properties/<pid><Suffix>.v) from its
    sources.  Returns a dict: ok, obligations, discharged, theorems, axioms (name -> list of axioms), log, broken."""
    total = None
    for name in property_files(pid):
        info = proof_stage_file(name)
        if total is None:
            total = info
        else:
            total['obligations'] += info['obligations']
            total['discharged'] += info['discharged']
            total['theorems'] += info['theorems']
            total['axioms'].update(info['axioms'])
            total['log'] += info['log']
            total['ok'] = total['ok'] and info['ok']
            total['broken'] = total['broken'] or info['broken']
    return total


def proof_stage_file(pid):
    info = {'ok': False, 'obligations': 0, 'discharged': 0, 'theorems': [], 'axioms': {},
            'broken': None, 'log': ''}
    src = os.path.join(THEORIES, 'Properties', pid + '.v')
    if not os.path.exists(src):
        info['broken'] = 'missing ' + src
        return info
    text = open(src).read()
    theorems = re.findall(r'^\s*Theorem\s+([A-Za-z0-9_\']+)', text, flags=re.M)
    printed = re.findall(r'^\s*Print\s+Assumptions\s+([A-Za-z0-9_\']+)\s*\.', text, flags=re.M)
    info['theorems'] = theorems
    info['obligations'] = len(theorems)
    hits = forbidden_scan(pid)
    if hits:
        info['broken'] = 'forbidden vernacular: ' + '; '.join(hits[:5])
        return info
    missing = [t for t in theorems if t not in printed]
    if missing or not theorems:
        info['broken'] = 'theorems without Print Assumptions: %s' % missing if theorems else 'no Theorem in ' + src
        return info
    rel = os.path.join('theories', 'Properties', pid + '.vo')
    # dependencies (not the property file itself: it is recompiled below to read its output)
    rc, txt = ensure_built([rel])
    info['log'] = txt[-3000:]
    if rc != 0:
        m = re.search(r'File "([^"]+)", line (\d+)[^\n]*\n(Error:[^\n]*(?:\n[^\n]+){0,4})', txt)
        info['broken'] = 'build failed: ' + (('%s:%s %s' % (m.group(1), m.group(2), m.group(3))) if m else txt[-600:])
        return info
    tmp = os.path.join(COQ, 'cases', 'proof_%s_%d' % (pid, os.getpid()))
    os.makedirs(tmp, exist_ok=True)
    try:
        rc, out = _run(['timeout', '900', 'coqc', '-q', '-Q', THEORIES, LOGICAL, '-o',
                        os.path.join(tmp, pid + '.vo'), src], 930)
    finally:
        shutil.rmtree(tmp, ignore_errors=True)
    if rc != 0:
        info['broken'] = 'coqc %s failed: %s' % (src, out[-800:])
        return info
    # answers of Print Assumptions come in order
    answers = re.split(r'(?=^Closed under the global context|^Axioms:)', out, flags=re.M)
    answers = [a for a in answers if a.startswith('Closed under') or a.startswith('Axioms:')]
    if len(answers) != len(printed):
        info['broken'] = 'expected %d Print Assumptions answers, got %d' % (len(printed), len(answers))
        return info
    for name, ans in zip(printed, answers):
        if ans.startswith('Closed under'):
            info['axioms'][name] = []
        else:
            info['axioms'][name] = re.findall(r'^([A-Za-z0-9_\.\']+)\s*:', ans, flags=re.M)
    info['discharged'] = sum(1 for t in theorems if t in info['axioms'])
    info['ok'] = info['discharged'] == info['obligations']
    return info


# ----------------------------------------------------------------------------------------
# known findings
# ----------------------------------------------------------------------------------------
def load_known():
    p = os.path.join(VERIF, 'known_findings.json')
    if not os.path.exists(p):
        return []
    return json.load(open(p)).get('findings', [])


def write_replay(pid, payload):
    os.makedirs(os.path.join(VERIF, 'replays'), exist_ok=True)
    blob = json.dumps(payload, sort_keys=True, default=str, indent=1)
    h = hashlib.sha1(blob.encode()).hexdigest()[:10]
    path = os.path.join(VERIF, 'replays', '%s-%s.json' % (pid, h))
    with open(path, 'w') as f:
        f.write(blob)
    return path


# ----------------------------------------------------------------------------------------
# main entry
# ----------------------------------------------------------------------------------------
STD_TRUSTED = [
    'Coq 8.16.1 kernel (coqc) incl. the vm_compute reduction machine; no native_compute',
    'hand-written Gallina model, tied to /repo by the behavioural correspondence of this run',
    'harness: generators, canonicalisation, python->Coq printer, coqc output parser (canary cases planted)',
    'CPython / NumPy / NetworkX / joblib semantics of the modelled constructs',
]


class CheckTimeout(BaseException):
    pass


def _arm_watchdog(tier):
    """Global wall-clock limit of one check (VERIF_MAX_S; default 25 min quick, 90 min thorough):
    a driver stuck in a non-terminating implementation call is interrupted and the check reports
    the hang instead of never returning."""
    import signal
    limit = int(os.environ.get('VERIF_MAX_S', '1500' if tier == 'quick' else '5400'))

    def on_alarm(signum, frame):
        raise CheckTimeout('check exceeded %d s' % limit)
    try:
        signal.signal(signal.SIGALRM, on_alarm)
        signal.alarm(limit)
    except (ValueError, OSError):
        pass
    return limit


def run_check(pid, tier, driver, replay=None):
    seed = int(os.environ.get('VERIF_SEED', '0') or 0)
    ctx = Ctx(pid, tier, seed)
    _arm_watchdog(tier)
    t0 = time.time()
    exit_code = 0
    lines = []
    proof = {'ok': False, 'broken': 'not run', 'obligations': 0, 'discharged': 0, 'axioms': {}, 'theorems': []}
    try:
        proof = proof_stage(pid)
        # corpus + correspondence
        def attempt(scale, seed_shift):
            ctx.scale = scale
            ctx.rng = random.Random(seed + seed_shift)
            try:
                if replay:
                    driver.replay(ctx, json.load(open(replay)))
                else:
                    corpus_dir = os.path.join(VERIF, 'corpus', pid.lower())
                    if os.path.isdir(corpus_dir) and hasattr(driver, 'replay'):
                        for fn in sorted(os.listdir(corpus_dir)):
                            if fn.endswith('.json'):
                                driver.replay(ctx, json.load(open(os.path.join(corpus_dir, fn))))
                    driver.run(ctx)
            except CoqEvalError as ex:
                ctx.disagree('coq-eval', None, str(ex))
            except CheckTimeout as ex:
                ctx.error('watchdog', '%s: the driver did not finish (a call into the implementation may not terminate)\n%s'
                          % (ex, traceback.format_exc()[-2500:]))
            except Exception as ex:  # the harness cannot drive the implementation
                ctx.error('driver', '%s: %s\n%s' % (type(ex).__name__, ex, traceback.format_exc()[-2500:]))
        attempt(1, 0)
        broken = (not proof['ok']) or ctx.disagreements or ctx.errors
        if broken and not ctx.violations and not replay and not any(e['group'] == 'watchdog' for e in ctx.errors):
            # escalate the search for a concrete failing input
            attempt(int(os.environ.get('VERIF_ESCALATE', '4')), 7919)
        if ctx.canaries and ctx.canaries_caught != ctx.canaries:
            ctx.error('canary', 'planted wrong cases not flagged by Coq: %d of %d' % (ctx.canaries_caught, ctx.canaries))
        # ---- decision
        known = [k for k in load_known() if k.get('property') == pid and k.get('status') == 'known']
        new_viol = []
        seen_known = {}
        for v in ctx.violations:
            k = next((k for k in known if k.get('key') and k.get('key') == v.get('finding_key')), None)
            if k:
                seen_known.setdefault(k['key'], (k, v))
            else:
                new_viol.append(v)
        ctx.new_violations = new_viol
        ctx.known_hits = {key: sum(1 for v in ctx.violations if v.get('finding_key') == key) for key in seen_known}
        for key, (k, v) in seen_known.items():
            lines.append('KNOWN-FINDING: property=%s %s' % (pid, k.get('what', key)))
        if new_viol:
            path = write_replay(pid, {'property': pid, 'kind': 'failing-input', 'seed': seed, 'tier': tier,
                                      'violation': new_viol[0], 'n_violations': len(new_viol),
                                      'how_to_replay': 'bin/check %s %s --replay <this file>' % (pid, tier)})
            lines.append('VIOLATION property=%s replay=%s' % (pid, path))
            exit_code = 1
        elif (not proof['ok']) or ctx.disagreements or ctx.errors:
            what = []
            if not proof['ok']:
                what.append('theorem file Properties/%s.v: %s' % (pid, proof.get('broken')))
            if ctx.disagreements:
                d = ctx.disagreements[0]
                what.append('correspondence %s.%s: %d disagreement(s)' % (pid, d['group'], len(ctx.disagreements)))
            if ctx.errors:
                what.append('harness could not drive the implementation: ' + ctx.errors[0]['what'][:300])
            path = write_replay(pid, {'property': pid, 'kind': 'no-failing-input-found', 'seed': seed, 'tier': tier,
                                      'broken': what, 'first_disagreement': (ctx.disagreements or [None])[0],
                                      'first_error': (ctx.errors or [None])[0]})
            lines.append('VIOLATION property=%s replay=%s no-failing-input-found' % (pid, path))
            exit_code = 1
    finally:
        ctx.cleanup()
        try:
            write_evidence(ctx, proof, time.time() - t0, exit_code)
        except Exception as ex:
            print('evidence writing failed: %s' % ex)
            exit_code = exit_code or 2
    for ln in lines:
        print(ln)
    ev = sum(g['evaluations'] for g in ctx.groups.values())
    n_new = len(getattr(ctx, 'new_violations', ctx.violations))
    print('%s %s: proofs %d/%d, %d evaluations, %d disagreements, %d violations (+%d known-finding hits), %.1fs -> exit %d' % (
        pid, tier, proof['discharged'], proof['obligations'], ev, len(ctx.disagreements),
        n_new, len(ctx.violations) - n_new, time.time() - t0, exit_code))
    return exit_code


def write_evidence(ctx, proof, wall, exit_code):
    axioms = sorted({a for l in proof.get('axioms', {}).values() for a in l})
    trusted = list(STD_TRUSTED)
    trusted.append('axioms reported by Print Assumptions this run: ' + (', '.join(axioms) if axioms else 'none (all theorems closed under the global context)'))
    drv_trusted = getattr(ctx, 'trusted_extra', [])
    trusted.extend(drv_trusted)
    groups = {}
    ev = 0
    nontriv = 0
    exhaustive = []
    for name, g in ctx.groups.items():
        groups[name] = {'evaluations': g['evaluations'], 'distinct_nontrivial': len(g['nontrivial_keys']),
                        'distribution': g['distribution'], 'exhaustive': g['exhaustive']}
        ev += g['evaluations']
        nontriv += len(g['nontrivial_keys'])
        if g['exhaustive'] is not None:
            exhaustive.append(bool(g['exhaustive']))
    cov = {
        'obligations': proof.get('obligations', 0),
        'discharged': proof.get('discharged', 0),
        'checker_cmd': 'make -C /verif/coq theories/Properties/%s.vo && coqc -Q /verif/coq/theories GolemV /verif/coq/theories/Properties/%s.v  (Print Assumptions under every theorem)' % (ctx.pid, ctx.pid),
        'trusted_base': trusted,
        'theorems': proof.get('theorems', []),
        'axioms_per_theorem': proof.get('axioms', {}),
        'proof_stage_broken': proof.get('broken'),
        'evaluations': ev,
        'distinct_nontrivial': nontriv,
        'rule': getattr(ctx, 'rule', ''),
        'samples': ctx.samples or [{'note': 'no correspondence case was produced in this run'}],
        'exhaustive': bool(exhaustive) and all(exhaustive),
        'groups': groups,
        'traces_validated_against_impl': ev,
        'disagreements': len(ctx.disagreements),
        'known_finding_hits': getattr(ctx, 'known_hits', {}),
        'canaries_planted': ctx.canaries,
        'canaries_caught': ctx.canaries_caught,
        'coqc_eval_s': round(ctx.coq_s, 1),
        'notes': ctx.notes,
    }
    evd = {
        'property_id': ctx.pid, 'tier': ctx.tier, 'seed': ctx.seed, 'level': 'proof',
        'coverage': cov,
        'assumptions': getattr(ctx, 'assumptions', []),
        'wall_s': round(wall, 2),
        'violations': len(getattr(ctx, 'new_violations', ctx.violations)) + (1 if exit_code and not getattr(ctx, 'new_violations', ctx.violations) else 0),
    }
    os.makedirs(os.path.join(VERIF, 'evidence'), exist_ok=True)
    with open(os.path.join(VERIF, 'evidence', ctx.pid + '.json'), 'w') as f:
        json.dump(evd, f, indent=1, default=str)
