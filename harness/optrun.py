"""Shared driver for the optimiser-loop properties (C01, C06, C07, C14, C15): runs the REAL
optimisers of /repo over JSON-describable configurations and records everything observable
through public API (iteration callback, history, result), as plain JSON-able data.

run_config(cfg) -> record (dict).  Deterministic for a given cfg (random, numpy and os.urandom are
seeded the way the repository's own test fixture does it).
"""
import contextlib
import datetime
import math
import os
import random
import shutil
import tempfile
import time
import traceback
from unittest.mock import patch

import numpy as np

from golem.core.adapter.adapter import IdentityAdapter
from golem.core.dag.graph_verifier import GraphVerifier
from golem.core.dag.verification_rules import DEFAULT_DAG_RULES
from golem.core.optimisers.fitness import SingleObjFitness
from golem.core.optimisers.genetic.gp_optimizer import EvoGraphOptimizer
from golem.core.optimisers.genetic.gp_params import GPAlgorithmParameters
from golem.core.optimisers.genetic.operators.base_mutations import MutationTypesEnum
from golem.core.optimisers.genetic.operators.crossover import CrossoverTypesEnum
from golem.core.optimisers.genetic.operators.elitism import ElitismTypesEnum
from golem.core.optimisers.genetic.operators.inheritance import GeneticSchemeTypesEnum
from golem.core.optimisers.genetic.operators.regularization import RegularizationTypesEnum
from golem.core.optimisers.genetic.operators.selection import SelectionTypesEnum
from golem.core.optimisers.graph import OptGraph, OptNode
from golem.core.optimisers.meta.surrogate_optimizer import SurrogateEachNgenOptimizer
from golem.core.optimisers.objective import Objective
from golem.core.optimisers.opt_node_factory import DefaultOptNodeFactory
from golem.core.optimisers.optimization_parameters import GraphRequirements
from golem.core.optimisers.optimizer import GraphGenerationParams
from golem.core.optimisers.random.random_mutation_optimizer import (PopulationalRandomMutationOptimizer,
                                                                      RandomMutationOptimizer)
from golem.core.optimisers.random.random_search import RandomSearchOptimizer
from golem.utilities.utilities import urandom_mock

OPTIMISERS = {
    'evo': EvoGraphOptimizer,
    'surrogate': SurrogateEachNgenOptimizer,
    'pop_random_mutation': PopulationalRandomMutationOptimizer,
    'random_search': RandomSearchOptimizer,
    'random_mutation': RandomMutationOptimizer,
}
POPULATIONAL = ('evo', 'surrogate', 'pop_random_mutation')

NODE_TYPES = ['a', 'b', 'c']


# ----------------------------------------------------------------------------------------------
# graphs from specs: spec = [name, [parent specs...]]  (trees) ;  shared nodes via ["@", k]
# ----------------------------------------------------------------------------------------------
class FittedNode(OptNode):
    """a node that looks 'fitted' to the decremental regularization operator (as nodes of fitted pipelines do)"""
    fitted_operation = True


def grow_layers_mutation(graph, requirements=None, graph_gen_params=None, parameters=None, **kwargs):
    """a user mutation that edits a container-valued node parameter IN PLACE on the graph it is given (the operator hands
    it a deep copy of the parent's graph, so the parent must stay as it was)"""
    nodes = [n for n in graph.nodes if isinstance(n.parameters.get('layers'), list)]
    if nodes:
        random.choice(nodes).parameters['layers'].append(1)
    return graph


def build_graph(spec, node_cls=OptNode, container_params=False):
    made = []

    def mk(s):
        if s[0] == '@':
            return made[s[1]]
        content = {'name': s[0], 'params': {'layers': [1]}} if container_params else s[0]
        node = node_cls(content, [mk(p) for p in s[1]])
        made.append(node)
        return node
    return OptGraph(mk(spec))


INITIAL_GRAPHS = {
    'single': [['a', []]],
    'chain': [['a', [['b', [['c', []]]]]]],
    'two': [['a', [['b', []]]], ['c', [['a', []], ['b', []]]]],
    'three': [['a', []], ['b', [['a', []]]], ['c', [['b', [['a', []]]], ['a', []]]]],
    'diamond': [['a', [['b', [['c', []]]], ['b', [['@', 0]]]]]],
    'big': [['a', [['b', [['c', [['a', [['b', []]]]]]]]]]],
    'five': [['a', [['b', []]]], ['b', [['c', []]]], ['c', [['a', []]]], ['a', [['c', [['b', []]]]]], ['b', [['a', [['c', []]]]]]],
    'mixed_sizes': [['a', []], ['a', [['b', [['c', [['a', []]]]]]]], ['b', [['a', []], ['c', []]]]],
}


# custom verification rules (module level so that they can be pickled / named)
def make_rule(spec):
    """spec: ['max_nodes', k, 'false'|'raise'] | ['no_label', name, 'false'|'raise'] | ['root_in', labels, 'false'|'raise']"""
    kind, arg, how = spec

    def rule(graph):
        if kind == 'max_nodes':
            ok = len(graph.nodes) <= arg
        elif kind == 'no_label':
            ok = all(str(n) != arg for n in graph.nodes)
        elif kind == 'max_layers':  # a rule on a container-valued node parameter
            ok = all(len(n.parameters.get('layers', [])) <= arg for n in graph.nodes)
        elif kind == 'root_in':     # every final node carries one of the given labels: NOT closed under taking subtrees
            roots = graph.root_nodes() if hasattr(graph, 'root_nodes') else [graph.root_node]
            ok = all(str(n) in arg for n in roots)
        else:
            raise KeyError(kind)
        if not ok and how == 'raise':
            raise ValueError('custom rule %s violated' % kind)
        return ok
    rule.__name__ = 'rule_%s_%s_%s' % (kind, arg, how)
    return rule


# ----------------------------------------------------------------------------------------------
# objectives: top-level picklable callables with dyadic values
# ----------------------------------------------------------------------------------------------
class Metric:
    """kind: size | depth | plateau | neg_size | label (count of 'a' nodes) | balance
    faults: {'by_index': {call_index: kind}, 'by_class': [modulus, residue, kind], 'all_after': [n, kind], 'by_size_over': [n, kind]}  kind in raise|none|nan
    Counts calls (in-process only)."""

    def __init__(self, kind, faults=None, log=None, primary=True):
        self.kind = kind
        self.faults = faults or {}
        self.calls = 0
        self.log = log
        self.primary = primary

    def value(self, g):
        n = len(g.nodes)
        if self.kind.startswith('big_'):
            # the same metric at a magnitude of 1e9: differences of a few units are far below what a relative
            # tolerance written for values around 1 lets through (all values stay exact in binary64)
            return 1e9 + Metric(self.kind[4:]).value(g)
        if self.kind == 'size':
            return float(n)
        if self.kind == 'neg_size':
            return float(-n)
        if self.kind == 'depth':
            return float(g.depth)
        if self.kind == 'plateau':
            return float(n // 3)
        if self.kind == 'label':
            return float(sum(1 for x in g.nodes if str(x) == 'a')) - n / 4.0
        if self.kind == 'balance':
            return abs(n - 4) / 2.0
        raise KeyError(self.kind)

    def __call__(self, g):
        idx = self.calls
        self.calls += 1
        fault = None
        if self.faults.get('reseed') is not None:
            # a deterministic metric that fixes the global generators itself (a model fitted with a fixed seed)
            random.seed(self.faults['reseed'])
            np.random.seed(self.faults['reseed'])
        by_index = self.faults.get('by_index') or {}
        if str(idx) in by_index:
            fault = by_index[str(idx)]
        bc = self.faults.get('by_class')
        if bc and len(g.nodes) % bc[0] == bc[1]:
            fault = bc[2]
        bl = self.faults.get('by_label')
        if bl and any(str(x) == bl[0] for x in g.nodes):
            fault = bl[1]
        after = self.faults.get('all_after')
        if after is not None and idx >= after[0]:
            fault = after[1]
        over = self.faults.get('by_size_over')
        if over is not None and len(g.nodes) > over[0]:
            fault = over[1]
        if self.log is not None and self.primary:
            self.log.append({'i': idx, 'id': g.descriptive_id, 'fault': fault})
        if fault == 'raise':
            raise RuntimeError('injected metric failure')
        if fault == 'none':
            return None
        if fault == 'nan':
            return float('nan')
        return self.value(g)


class FeasibleFitness(SingleObjFitness):
    """a user fitness class: valid only when the value was computed AND the solution is feasible (here: the primary value
    is not an odd integer); infeasible solutions must be treated like failed evaluations"""

    @property
    def valid(self):
        v = self.value
        return v is not None and not (float(v).is_integer() and int(v) % 2 == 1)


class FeasibilityObjective(Objective):
    """an objective whose fitness objects are of a user subclass"""

    def __call__(self, graph, **kwargs):
        f = super().__call__(graph, **kwargs)
        if isinstance(f, SingleObjFitness) and f.value is not None:
            return FeasibleFitness(*f.values)
        return f


def make_objective(spec, log):
    """spec = {'metrics': [kind...], 'multi': bool, 'faults': {...}, 'fitness_subclass': bool}; faults apply to the first metric"""
    metrics = {}
    for i, kind in enumerate(spec['metrics']):
        metrics['m%d_%s' % (i, kind)] = Metric(kind, spec.get('faults') if i == 0 else None, log, primary=(i == 0))
    cls = FeasibilityObjective if spec.get('fitness_subclass') else Objective
    return cls(metrics, is_multi_objective=bool(spec.get('multi')))


class SizeLimitVerifier(GraphVerifier):
    """a user verifier that EXTENDS verify(): the configured rules and at most `limit` nodes"""
    limit = 4

    def verify(self, graph):
        return super().verify(graph) and len(graph.nodes) <= self.limit


# ----------------------------------------------------------------------------------------------
# configuration -> optimiser
# ----------------------------------------------------------------------------------------------
def _td(minutes):
    return None if minutes is None else datetime.timedelta(minutes=minutes)


def make_optimiser(cfg, log, history_dir=None):
    objective = make_objective(cfg['objective'], log)
    req = GraphRequirements(
        num_of_generations=cfg.get('num_of_generations', 3),
        timeout=_td(cfg.get('timeout_min', 2.0)),
        early_stopping_iterations=cfg.get('early_stopping_iterations', None),
        early_stopping_timeout=cfg.get('early_stopping_timeout', None),
        keep_n_best=cfg.get('keep_n_best', 1),
        n_jobs=cfg.get('n_jobs', 1),
        show_progress=cfg.get('show_progress', False),
        parallelization_mode=cfg.get('parallelization_mode', 'single'),
        keep_history=True,
        history_dir=history_dir,
        max_depth=cfg.get('max_depth', 4),
        max_arity=cfg.get('max_arity', 3),
    )
    gp = GPAlgorithmParameters(
        pop_size=cfg.get('pop_size', 5),
        max_pop_size=cfg.get('max_pop_size', 20),
        multi_objective=bool(cfg['objective'].get('multi')),
        genetic_scheme_type=GeneticSchemeTypesEnum[cfg.get('scheme', 'generational')],
        elitism_type=ElitismTypesEnum[cfg.get('elitism', 'keep_n_best')],
        selection_types=[SelectionTypesEnum[s] for s in cfg.get('selection', ['tournament'])],
        crossover_types=[CrossoverTypesEnum[c] for c in cfg.get('crossover', ['subtree', 'one_point'])],
        mutation_types=[grow_layers_mutation if m == 'grow_layers' else MutationTypesEnum[m]
                        for m in cfg.get('mutation', ['single_add', 'single_change', 'single_drop', 'single_edge'])],
        crossover_prob=cfg.get('crossover_prob', 0.8),
        mutation_prob=cfg.get('mutation_prob', 0.8),
        structural_diversity_frequency_check=cfg.get('diversity_check', -1),
        max_num_of_operator_attempts=cfg.get('operator_attempts', 20),
        regularization_type=RegularizationTypesEnum[cfg.get('regularization', 'none')],
    )
    rules = list(DEFAULT_DAG_RULES)
    if cfg.get('rule'):
        rules.append(make_rule(cfg['rule']))
    gen = GraphGenerationParams(adapter=IdentityAdapter(), rules_for_constraint=rules,
                                node_factory=DefaultOptNodeFactory(cfg.get('node_types') or NODE_TYPES))
    if cfg.get('verifier_subclass'):
        # the whole run is configured with a user subclass of the verifier (also inside the random graph factory)
        sub = SizeLimitVerifier(rules, gen.adapter)
        sub.limit = int(cfg['verifier_subclass'])
        gen.verifier = sub
        if hasattr(gen.random_graph_factory, 'verifier'):
            gen.random_graph_factory.verifier = sub
    node_cls = FittedNode if cfg.get('fitted_nodes') else OptNode
    initial = [build_graph(s, node_cls, bool(cfg.get('container_params'))) for s in INITIAL_GRAPHS[cfg.get('initial', 'two')]]
    cls = OPTIMISERS[cfg['optimiser']]
    opt = cls(objective, initial, req, gen, gp)
    return opt, objective, gen


def fit_values(f):
    if not f.valid:
        return None
    return [float(v) for v in f.values]


def ind_record(ind, verifier):
    # "accepted by the configured verifier": both public entry points of the verifier must say so
    try:
        ok = bool(verifier(ind.graph)) and (bool(verifier.verify(ind.graph)) if hasattr(verifier, 'verify') else True)
    except Exception as ex:  # noqa
        ok = False
    po = ind.parent_operator
    return {
        'uid': ind.uid,
        'fitness': fit_values(ind.fitness),
        'id': ind.graph.descriptive_id,
        'verified': ok,
        'native_generation': ind.native_generation,
        'op': (po.type_ if po else None),
        'op_names': (list(po.operators) if po else None),
        'parents': ([p.uid for p in po.parent_individuals] if po else []),
    }


def export_history(history, verifier):
    """individuals are keyed by uid; should two DIFFERENT Individual objects carry one uid, the later ones get the
    key '<uid>#dup<k>' (and the flag duplicate_object_for_uid) so that nothing recorded is lost from the export"""
    inds, key_of, per_uid = {}, {}, {}

    def key(obj):
        k = key_of.get(id(obj))
        if k is None:
            n = per_uid.get(obj.uid, 0)
            per_uid[obj.uid] = n + 1
            k = obj.uid if n == 0 else '%s#dup%d' % (obj.uid, n)
            key_of[id(obj)] = k
        return k

    def visit(ind):
        stack = [ind]
        while stack:
            cur = stack.pop()
            k = key(cur)
            if k in inds:
                continue
            rec = ind_record(cur, verifier)
            po = cur.parent_operator
            rec['parents'] = [key(p) for p in po.parent_individuals] if po else []
            if k != cur.uid:
                rec['duplicate_object_for_uid'] = True
            inds[k] = rec
            stack.extend(cur.parents)

    gens = []
    for g in history.generations:
        gens.append({'num': g.generation_num, 'label': g.label, 'members': [key(i) for i in g]})
        for i in g:
            visit(i)
    arch = []
    for a in history.archive_history:
        arch.append([key(i) for i in a])
        for i in a:
            visit(i)
    return {'generations': gens, 'archive': arch, 'individuals': inds}


def run_config(cfg, history_dir=None, callback_fault=None):
    """Runs one optimisation. callback_fault = {'at': k, 'exc': 'RuntimeError'|'KeyError'} raises
    inside the iteration callback of the k-th recorded population (an error inside the loop)."""
    log = []
    seed = cfg.get('seed', 0)
    rec = {'cfg': cfg, 'outcome': None, 'result': None, 'populations': [], 'history': None}
    t0 = time.time()
    tmp = None
    try:
        with (contextlib.nullcontext() if cfg.get('real_urandom') else patch('os.urandom', urandom_mock)):
            random.seed(seed)
            np.random.seed(seed)
            if history_dir == 'tmp':
                tmp = tempfile.mkdtemp(prefix='golem_hist_')
                history_dir = tmp
            opt, objective, gen = make_optimiser(cfg, log, history_dir)
            verifier = gen.verifier
            pops = rec['populations']

            def cb(population, optimiser):
                k = len(pops)
                pops.append({'inds': [ind_record(i, verifier) for i in population],
                             'generation_num': getattr(getattr(optimiser, 'generations', None), 'generation_num', None),
                             'stagnation': getattr(getattr(optimiser, 'generations', None), 'stagnation_iter_count', None),
                             'archive': [i.uid for i in optimiser.generations.best_individuals]
                             if hasattr(optimiser, 'generations') else None,
                             'pop_size_param': getattr(optimiser.graph_optimizer_params, 'pop_size', None),
                             't': time.time() - t0})
                if callback_fault and callback_fault['at'] == k:
                    raise {'RuntimeError': RuntimeError, 'KeyError': KeyError, 'ValueError': ValueError}[callback_fault['exc']]('injected loop failure')
            opt.set_iteration_callback(cb)
            try:
                result = opt.optimise(objective)
                for _ in range(int(cfg.get('runs', 1)) - 1):   # the same optimiser instance run again
                    result = opt.optimise(objective)
                rec['outcome'] = 'ok'
                rec['result'] = [{'id': g.descriptive_id, 'verified': bool(verifier(g))} for g in result]
                rec['result_is_archive_graphs'] = [any(g is i.graph for i in opt.generations.best_individuals) for g in result]
            except Exception as ex:  # noqa
                rec['outcome'] = 'raise:' + type(ex).__name__
                rec['exception'] = traceback.format_exc()[-1500:]
            rec['history'] = export_history(opt.history, verifier)
            rec['final_archive'] = [i.uid for i in opt.generations.best_individuals]
            rec['keeper'] = {'generation_num': opt.generations.generation_num,
                             'stagnation': opt.generations.stagnation_iter_count}
            rec['timer_terminated'] = bool(getattr(opt.timer, 'process_terminated', False))
    finally:
        if tmp:
            rec['history_dir_listing'] = sorted(os.path.relpath(os.path.join(r, f), tmp) for r, _, fs in os.walk(tmp) for f in fs)[:2000]
            shutil.rmtree(tmp, ignore_errors=True)
    rec['objective_log'] = log
    rec['wall_s'] = round(time.time() - t0, 3)
    return rec


# ----------------------------------------------------------------------------------------------
# configuration grid
# ----------------------------------------------------------------------------------------------
def random_config(rng, optimiser=None, multi=None):
    optimiser = optimiser or rng.choice(list(OPTIMISERS))
    multi = rng.random() < 0.35 if multi is None else multi
    if multi:
        metrics = rng.choice([['size', 'depth'], ['balance', 'label'], ['plateau', 'neg_size'], ['label', 'depth', 'size'],
                              ['big_size', 'big_depth'], ['big_neg_size', 'big_depth'], ['big_balance', 'big_label', 'big_size']])
    elif rng.random() < 0.3:
        # single objective with supplementary metrics: ties on the primary value are decided by the others
        metrics = rng.choice([['plateau', 'size'], ['plateau', 'neg_size'], ['label', 'depth'], ['balance', 'size'],
                              ['plateau', 'label', 'size']])
    else:
        metrics = [rng.choice(['size', 'neg_size', 'depth', 'plateau', 'label', 'balance', 'big_size', 'big_label'])]
    cfg = {
        'optimiser': optimiser,
        'objective': {'metrics': metrics, 'multi': multi},
        'num_of_generations': rng.choice([1, 2, 3, 4, 6]),
        'keep_n_best': rng.choice([1, 1, 2, 3]),
        'pop_size': rng.choice([2, 3, 5, 6, 8]),
        'max_pop_size': rng.choice([8, 12, 20]),
        'scheme': rng.choice(['generational', 'steady_state', 'parameter_free']),
        'elitism': rng.choice(['keep_n_best', 'replace_worst', 'none']),
        'selection': [rng.choice(['tournament', 'spea2'])],
        'crossover': rng.choice([['subtree'], ['one_point'], ['subtree', 'one_point'], ['none'], ['exchange_edges', 'exchange_parents_one'],
                                 ['exchange_parents_both', 'subtree']]),
        'mutation': rng.choice([['single_add', 'single_change', 'single_drop', 'single_edge'], ['simple', 'growth', 'reduce'],
                                ['single_add', 'tree_growth', 'local_growth'], ['single_change'], ['single_edge', 'single_drop', 'single_add']]),
        'initial': rng.choice(list(INITIAL_GRAPHS)),
        'early_stopping_iterations': rng.choice([None, None, 2, 3]),
        'show_progress': False,
        'seed': rng.randrange(10 ** 6),
    }
    r = rng.random()
    if r < 0.2:
        cfg['rule'] = rng.choice([['max_nodes', 3, 'false'], ['max_nodes', 4, 'raise'], ['no_label', 'c', 'false'], ['no_label', 'b', 'raise']])
        # the populational optimisers need at least one initial graph that the rule accepts
        rule = make_rule([cfg['rule'][0], cfg['rule'][1], 'false'])
        if not any(rule(build_graph(spec)) for spec in INITIAL_GRAPHS[cfg['initial']]):
            cfg['initial'] = 'single'
    return cfg


def collapse_config(rng, optimiser='evo'):
    """tiny search space + structural diversity check + a label whose graphs cannot be evaluated:
    the diversity refill has to create fresh mutants, some of which fail evaluation"""
    cfg = random_config(rng, optimiser=optimiser, multi=False)
    cfg.update({'node_types': ['a', 'bad'] if rng.random() < 0.6 else ['a', 'b', 'bad'], 'max_depth': rng.choice([1, 2]),
                'initial': 'single', 'diversity_check': rng.choice([1, 2]), 'pop_size': rng.choice([5, 6, 8]),
                'num_of_generations': rng.choice([4, 6, 8]), 'crossover': ['none'], 'keep_n_best': 1,
                'mutation': ['single_change', 'single_add', 'single_drop'], 'early_stopping_iterations': None})
    kind = rng.choice(['raise', 'none', 'nan'])
    faults = rng.choice([{'by_label': ['bad', kind]}, {'by_label': ['bad', kind]},
                         {'by_index': {str(i): kind for i in range(1, 400, rng.choice([2, 3]))}},
                         {'all_after': [rng.choice([3, 5]), kind]}])
    if rng.random() < 0.5:
        cfg['pop_size'] = rng.choice([2, 3])
        cfg['max_depth'] = 1
    cfg['objective'] = {'metrics': [rng.choice(['size', 'label', 'balance'])], 'multi': False, 'faults': faults}
    cfg.pop('rule', None)
    return cfg


def strict_rule_config(rng, optimiser='evo'):
    """a strict custom rule with individuals on its boundary and operators that can only move
    outwards: every mutation attempt is rejected by the verifier"""
    cfg = random_config(rng, optimiser=optimiser, multi=False)
    cfg.update({'rule': ['max_nodes', 3, rng.choice(['false', 'raise'])], 'initial': 'chain',
                'mutation': rng.choice([['single_add'], ['single_add', 'single_edge']]), 'crossover': ['none'],
                'operator_attempts': rng.choice([3, 5]), 'mutation_prob': 1.0, 'max_depth': 5,
                'num_of_generations': rng.choice([3, 4]), 'early_stopping_iterations': None, 'diversity_check': -1})
    cfg['objective'] = {'metrics': ['neg_size'], 'multi': False}
    return cfg


def rerun_config(rng):
    """one optimiser instance, optimise() called twice: archive and history must stay consistent"""
    cfg = random_config(rng, optimiser=rng.choice(['random_search', 'random_mutation', 'random_search', 'pop_random_mutation']), multi=False)
    cfg.update({'runs': 2, 'keep_n_best': rng.choice([1, 2, 3]), 'num_of_generations': rng.choice([3, 5]),
                'early_stopping_iterations': None})
    cfg['objective'] = {'metrics': [rng.choice(['size', 'balance', 'label'])], 'multi': False}
    cfg.pop('rule', None)
    return cfg


def failing_start_config(rng):
    """random search whose very first evaluation (the initial individual) fails while later ones work"""
    cfg = random_config(rng, optimiser=rng.choice(['random_search', 'random_mutation']), multi=rng.random() < 0.3)
    kind = rng.choice(['raise', 'none', 'nan'])
    cfg['objective']['faults'] = {'by_index': {'0': kind}}
    cfg.update({'num_of_generations': rng.choice([3, 4, 6]), 'initial': rng.choice(['single', 'chain'])})
    cfg.pop('rule', None)
    return cfg


def passthrough_config(rng, optimiser=None):
    """low mutation / crossover probability, so that parents pass through reproduction unchanged, and an
    evaluation backend that stops working after a few calls (or only works for small graphs): the offspring of a
    generation are then mostly individuals already present in the previous population"""
    cfg = random_config(rng, optimiser=optimiser or rng.choice(['evo', 'evo', 'surrogate']), multi=rng.random() < 0.2)
    cfg.update({'scheme': rng.choice(['steady_state', 'steady_state', 'parameter_free', 'generational']),
                'mutation_prob': rng.choice([0.2, 0.3, 0.4, 0.5]),
                'crossover': rng.choice([['none'], ['none'], ['subtree']]), 'crossover_prob': rng.choice([0.0, 0.3]),
                'mutation': rng.choice([['single_change', 'single_add'], ['single_add'], ['single_change', 'single_drop', 'single_add']]),
                'initial': rng.choice(['three', 'mixed_sizes', 'two']), 'pop_size': rng.choice([3, 5, 5, 6]),
                'num_of_generations': rng.choice([5, 6, 8]), 'early_stopping_iterations': None,
                'elitism': rng.choice(['keep_n_best', 'keep_n_best', 'none', 'replace_worst']), 'diversity_check': -1})
    kind = rng.choice(['raise', 'none', 'nan'])
    n0 = len(INITIAL_GRAPHS[cfg['initial']])
    faults = rng.choice([{'all_after': [n0 + rng.choice([0, 2, 5, 9]), kind]},
                         {'all_after': [n0 + rng.choice([0, 2, 5, 9]), kind]},
                         {'by_size_over': [rng.choice([3, 4]), kind]}])
    cfg['objective']['faults'] = faults
    if rng.random() < 0.5:
        # the whole initial population is given (no extension), the population size may still double, and the
        # evaluation backend goes away a few calls after the start: new + previous stays within pop_size
        cfg.update({'optimiser': 'evo', 'initial': 'five', 'pop_size': 5, 'max_pop_size': 20, 'crossover': ['none'],
                    'scheme': rng.choice(['steady_state', 'steady_state', 'parameter_free']),
                    'mutation_prob': rng.choice([0.3, 0.4, 0.5])})
        cfg['objective']['faults'] = {'all_after': [5 + rng.choice([2, 3, 4, 5, 6]), kind]}
    cfg.pop('rule', None)
    return cfg


def regularization_config(rng):
    """decremental regularization (non-default): sub-graphs of 'fitted' members are offered to selection; with a rule that
    is not closed under taking subtrees they must be verified before they can be selected and recorded"""
    cfg = random_config(rng, optimiser=rng.choice(['evo', 'evo', 'surrogate']), multi=False)
    cfg.update({'regularization': 'decremental', 'fitted_nodes': True, 'initial': rng.choice(['chain', 'big', 'big', 'mixed_sizes']),
                'mutation_prob': rng.choice([0.2, 0.4]), 'crossover_prob': rng.choice([0.2, 0.5]),
                'num_of_generations': rng.choice([3, 4]), 'pop_size': rng.choice([4, 6]), 'early_stopping_iterations': None,
                'rule': rng.choice([['root_in', 'a', 'false'], ['root_in', 'a', 'false'], ['root_in', 'a', 'raise'],
                                    ['root_in', 'ab', 'false'], None])})
    if cfg['rule'] is None:
        cfg.pop('rule')
    elif cfg['initial'] == 'mixed_sizes':
        cfg['rule'] = ['root_in', 'ab', cfg['rule'][2]]
    # smaller is better in most cases: sub-graphs are attractive for the archive
    cfg['objective'] = {'metrics': [rng.choice(['size', 'size', 'size', 'balance', 'label'])], 'multi': False}
    if rng.random() < 0.6:
        # operators that keep the size: nothing smaller than a sub-graph can be produced in another way
        cfg.update({'mutation': ['single_change'], 'crossover': ['none'], 'keep_n_best': rng.choice([1, 3]),
                    'scheme': rng.choice(['steady_state', 'generational', 'parameter_free'])})
    return cfg


def unsatisfiable_generator_config(rng):
    """random search whose rule no randomly grown graph can satisfy (growth always yields >= 3 nodes, the rule allows 2):
    the generator has to give up with its error; the initial graph is acceptable"""
    cfg = random_config(rng, optimiser='random_search', multi=False)
    cfg.update({'rule': ['max_nodes', 2, rng.choice(['false', 'raise'])], 'initial': 'single', 'max_depth': rng.choice([2, 3]),
                'num_of_generations': rng.choice([2, 3]), 'early_stopping_iterations': None})
    cfg['objective'] = {'metrics': [rng.choice(['size', 'neg_size'])], 'multi': False}
    return cfg


def container_params_config(rng):
    """node parameters holding lists, a user mutation that appends to them in place and a rule on their length: a parent
    that was verified and archived must not be altered when its offspring is edited"""
    cfg = random_config(rng, optimiser=rng.choice(['evo', 'evo', 'pop_random_mutation', 'random_mutation', 'surrogate']), multi=False)
    cfg.update({'container_params': True, 'rule': ['max_layers', rng.choice([1, 2]), rng.choice(['false', 'false', 'raise'])],
                'mutation': rng.choice([['grow_layers'], ['grow_layers', 'single_change']]), 'crossover': ['none'],
                'mutation_prob': 1.0, 'initial': rng.choice(['two', 'three', 'chain']), 'num_of_generations': rng.choice([3, 4]),
                'early_stopping_iterations': None, 'operator_attempts': rng.choice([3, 5])})
    cfg['objective'] = {'metrics': [rng.choice(['size', 'balance', 'label'])], 'multi': False}
    return cfg


def subclass_config(rng):
    """user subclasses: a verifier that extends verify(), an objective whose fitness class overrides `valid`"""
    cfg = random_config(rng, optimiser=rng.choice(['evo', 'evo', 'pop_random_mutation', 'random_search', 'random_mutation', 'surrogate']),
                        multi=False)
    cfg.pop('rule', None)
    cfg.update({'num_of_generations': rng.choice([3, 4]), 'early_stopping_iterations': None})
    if rng.random() < 0.5:
        cfg.update({'verifier_subclass': rng.choice([3, 4]), 'initial': rng.choice(['single', 'two', 'chain', 'three']),
                    'mutation': rng.choice([['single_add'], ['single_add', 'single_change'], ['growth', 'simple']])})
        cfg['objective'] = {'metrics': [rng.choice(['neg_size', 'balance'])], 'multi': False}
    else:
        cfg['objective'] = {'metrics': [rng.choice(['size', 'depth', 'size'])], 'multi': False, 'fitness_subclass': True}
        cfg['initial'] = rng.choice(['two', 'three', 'mixed_sizes', 'five'])
    return cfg


def magnitude_config(rng):
    """objective values around 1e9 that differ by a few units (or single objective with supplementary values there)"""
    multi = rng.random() < 0.7
    cfg = random_config(rng, optimiser=rng.choice(['evo', 'random_search', 'pop_random_mutation', 'surrogate', 'random_mutation']),
                        multi=multi)
    if multi:
        cfg['objective']['metrics'] = rng.choice([['big_size', 'big_depth'], ['big_neg_size', 'big_depth'],
                                                  ['big_balance', 'big_label', 'big_size']])
    else:
        cfg['objective']['metrics'] = rng.choice([['big_plateau', 'big_size'], ['big_label'], ['big_balance', 'big_neg_size']])
    cfg.pop('rule', None)
    return cfg


def reseeding_metric_config(rng):
    """a deterministic metric that re-seeds the global generators on every call (like a model fitted with a fixed
    random_state); identifiers come from the real os.urandom, so they must stay distinct whatever the metric does"""
    cfg = random_config(rng, optimiser=rng.choice(['random_search', 'random_mutation', 'evo', 'pop_random_mutation']), multi=False)
    cfg.update({'real_urandom': True, 'num_of_generations': rng.choice([4, 6]), 'early_stopping_iterations': None,
                'keep_n_best': rng.choice([1, 1, 2])})
    cfg['objective'] = {'metrics': [rng.choice(['neg_size', 'balance', 'label'])], 'multi': False,
                        'faults': {'reseed': rng.choice([0, 1, 7])}}
    if rng.random() < 0.6:
        # steady improvement: every accepted mutant is larger (= better) than the archive member
        cfg.update({'optimiser': 'random_mutation', 'mutation': rng.choice([['single_add'], ['single_add', 'single_change']]),
                    'num_of_generations': 6, 'initial': 'single', 'max_depth': 6, 'crossover': ['none']})
        cfg['objective']['metrics'] = ['neg_size']
    cfg.pop('rule', None)
    return cfg


def lucky_few_config(rng):
    """after the initial population almost every evaluation fails and only every 6th..9th call gets through: later
    generations collect too few valid offspring (the too-few-valid-individuals stop), yet a lucky one may be the best"""
    cfg = random_config(rng, optimiser=rng.choice(['evo', 'evo', 'surrogate', 'pop_random_mutation']), multi=rng.random() < 0.2)
    n0 = len(INITIAL_GRAPHS['three'])
    start = n0 + rng.choice([0, 3, 8, 15])
    step = rng.choice([6, 7, 9])
    kind = rng.choice(['raise', 'none', 'nan'])
    cfg.update({'initial': 'three', 'pop_size': rng.choice([5, 6, 8]), 'num_of_generations': rng.choice([4, 6]),
                'early_stopping_iterations': None, 'diversity_check': -1,
                'scheme': rng.choice(['generational', 'steady_state', 'parameter_free'])})
    cfg['objective']['metrics'][0] = rng.choice(['neg_size', 'neg_size', 'balance', 'label'])
    cfg['objective']['faults'] = {'by_index': {str(i): kind for i in range(start, 600) if (i - start) % step != step - 1}}
    cfg.pop('rule', None)
    return cfg


def invalid_initial_config(rng):
    """every supplied initial graph violates a custom rule (random search generates its own start)"""
    # (RandomMutationOptimizer mutates its initial individual and cannot start without one: not generated)
    cfg = random_config(rng, optimiser='random_search', multi=False)
    cfg.update({'rule': ['no_label', 'c', rng.choice(['false', 'raise'])], 'initial': 'chain', 'node_types': ['a', 'b'],
                'num_of_generations': rng.choice([2, 4])})
    cfg['objective'] = {'metrics': [rng.choice(['neg_size', 'size'])], 'multi': False}
    return cfg
