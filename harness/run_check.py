import importlib
import logging
import os
import sys

sys.path.insert(0, os.path.dirname(os.path.abspath(__file__)))
import common  # noqa: E402


def main():
    args = [a for a in sys.argv[1:]]
    replay = None
    if '--replay' in args:
        i = args.index('--replay')
        replay = args[i + 1]
        del args[i:i + 2]
    pid = args[0].upper()
    tier = args[1] if len(args) > 1 else os.environ.get('VERIF_TIER', 'quick')
    assert tier in ('quick', 'thorough')
    logging.disable(logging.CRITICAL)
    import golem
    repo = os.path.realpath(os.environ.get('VERIF_REPO', '/repo'))
    if not os.path.realpath(golem.__file__).startswith(repo + os.sep):
        print('harness error: golem imported from %s, expected under %s' % (golem.__file__, repo))
        sys.exit(2)
    driver = importlib.import_module(pid.lower())
    sys.exit(common.run_check(pid, tier, driver, replay))


if __name__ == '__main__':
    main()
